"""Analyse helper functions that are not in the reference inventory as part of their callers.

The rules were written against the function inventory of the reference tree (engine/tables/baseline_fns.json).  A local
function that is not in that inventory is, for the rules, a piece of its caller that a refactoring moved out ("extract
function", "split a long function").  Its body is spliced into every call site (sync call, or `helper(..).await`), the
call stays visible as a marker, and the helper itself is dropped from the program when every use was spliced.  On the
reference tree nothing is new, so nothing changes.

The splice is CFG surgery on the fact dump (JSON), before `Fn` objects compute anything:
  caller block  bX: `_d = helper(a, b) -> bY`
  becomes       bX: `_d = helper(a, b) -> E`            (marker call kept, `inlined` flag set)
                E : P1 = a; P2 = b; goto entry'          (parameters / coroutine upvars of the callee copy)
                .. callee blocks, renumbered ..
                callee `return`  ->  L: <result> = move ret'; goto <continuation>
For an awaited async helper the continuation is the statement after `X = move (poll_result as Ready).0` of the caller's
await loop and <result> is X; the poll loop itself becomes unreachable.
"""
import copy
import json
import os
import re
import sys

HERE = os.path.dirname(os.path.abspath(__file__))
INVENTORY = os.path.join(HERE, "tables", "baseline_fns.json")


def load_inventory():
    if not os.path.exists(INVENTORY):
        return None
    j = json.load(open(INVENTORY))
    if isinstance(j, list):
        return {"fns": {k: {} for k in j}, "adts": {}}
    return j


def ref_of(ref, what, cfg):
    """fingerprint / size of an inventory function in the build configuration being analysed (bodies differ between configurations)"""
    if not ref:
        return None
    v = ref.get(what)
    if isinstance(v, dict):
        return v.get(cfg)
    return v


def fn_sig(f):
    """type signature of a function: kind, parameter types, return type, trait item"""
    return "%s|%s|%s->%s" % (f.kind, f.j.get("trait_item") or "", ",".join(f.ty(f.locals[i]["ty"])["s"] for i in range(1, f.arg_count + 1)),
                             f.ty(f.locals[0]["ty"])["s"])


def fn_print(prog, f):
    """body fingerprint that survives renames: external callees (in order of first use), number of local calls, string constants"""
    import hashlib
    body = prog.body_of(f) if hasattr(prog, "body_of") else f
    ext, nloc = [], 0
    for c in body.calls:
        if c.local_key() and c.local_key() in prog.fns:
            nloc += 1
        else:
            ext.append(c.path or c.name or "?")
    return hashlib.sha1(("|".join(ext) + "#%d" % nloc).encode()).hexdigest()[:16]


def fn_print_deep(prog, f):
    """fingerprint of a function together with all closures / coroutine bodies nested in it (an edit inside a closure is an edit
    of the function): per body its relative path, external callees, number of local calls and number of blocks"""
    import hashlib
    top = f
    parts = []
    todo = [top]
    seen = set()
    while todo:
        g = todo.pop()
        if g.key in seen:
            continue
        seen.add(g.key)
        ext, nloc = [], 0
        for c in g.calls:
            if c.term.get("inlined"):
                continue
            if c.local_key() and c.local_key() in prog.fns:
                nloc += 1
            else:
                ext.append(c.path or c.name or "?")
        parts.append("%s:%s#%d/%d" % (g.key[len(top.key):], "|".join(ext), nloc, len(g.blocks)))
        todo.extend(prog.children(g))
    return hashlib.sha1("\n".join(sorted(parts)).encode()).hexdigest()[:16]


def normalise_renames(prog, Fn, inv):
    """A function of the reference inventory that no longer exists, while exactly one new function with the same signature exists
    in the same file, was renamed: the new one (and its closures) is given the old path, in every def path and callee path of the
    dump.  Same for a struct field whose name changed while its position and type did not.  Returns the list of renames."""
    renames = []
    fns = inv.get("fns", {})
    cfg = getattr(prog, "meta", {}).get("config")
    # ---- renamed types: an ADT of the inventory vanished while exactly one new ADT with the same shape, kind, file and set of
    # implemented traits appeared: its old path is restored in every path and type string of the dump first
    type_map = {}
    ameta = inv.get("adt_meta", {})
    for crate in ("redproxy_rs", "milu"):
        cur_adts = {crate + "::" + a["path"]: a for a in prog.items.get(crate, {}).get("adts", [])}
        gone = [k for k in inv.get("adts", {}) if k.startswith(crate + "::") and k not in cur_adts and k in ameta]
        fresh = [k for k in cur_adts if k not in inv.get("adts", {})]

        def shape(a):
            return [[v["name"], [[fl["name"], prog.types[crate][fl["ty"]]["s"]] for fl in v["fields"]]] for v in a["variants"]]

        def traits_of(path):
            return sorted(set(i.get("trait", "") for i in prog.items[crate]["impls"] if prog.types[crate][i["self_ty"]]["s"] == path))
        for g in gone:
            old_short = g.split("::", 1)[1]
            c = []
            for n in fresh:
                a = cur_adts[n]
                new_short = n.split("::", 1)[1]
                sh = json.loads(json.dumps(shape(a)).replace(new_short, old_short).replace('"%s"' % new_short.split("::")[-1], '"%s"' % old_short.split("::")[-1]))
                if a["span"]["f"] == ameta[g]["file"] and a["kind"] == ameta[g]["kind"] and sh == inv["adts"][g] and \
                        [t.replace(new_short, old_short) for t in traits_of(new_short)] == ameta[g]["traits"]:
                    c.append(n)
            if len(c) == 1 and sum(1 for g2 in gone if ameta[g2] == ameta[g] and inv["adts"][g2] == inv["adts"][g]) == 1:
                type_map[c[0].split("::", 1)[1]] = old_short
                renames.append(("type " + c[0], g))
    if type_map:
        tolds = sorted(type_map, key=len, reverse=True)

        def trn(sv):
            for o in tolds:
                if o in sv:
                    sv = re.sub(r"(?<![\w])" + re.escape(o) + r"(?![\w])", type_map[o], sv)
            return sv

        def twalk(x):
            if isinstance(x, dict):
                for k in list(x.keys()):
                    v = x[k]
                    if isinstance(v, str):
                        x[k] = trn(v)
                    elif isinstance(v, (dict, list)):
                        twalk(v)
            elif isinstance(x, list):
                for i, v in enumerate(x):
                    if isinstance(v, str):
                        x[i] = trn(v)
                    elif isinstance(v, (dict, list)):
                        twalk(v)
        for crate in ("redproxy_rs", "milu"):
            raw = prog.raw.get(crate)
            if raw is None:
                continue
            twalk(raw["fns"])
            twalk(raw["types"])
            twalk(raw["items"])
            prog.fns = {k: f for k, f in prog.fns.items() if f.crate != crate}
            prog.by_crate[crate] = {}
            for fj in raw["fns"]:
                f = Fn(prog, crate, fj)
                prog.fns[f.key] = f
                prog.by_crate[crate][f.path] = f
        prog._cg = prog._rcg = prog._impls_of = None
    cur = {k: f for k, f in prog.fns.items() if f.kind in ("Fn", "AssocFn")}
    missing = [k for k in fns if k not in cur and fns[k].get("sig")]
    new = [k for k in cur if k not in fns]
    pairs = {}
    for m in missing:
        crate = m.split("::", 1)[0]
        c = [n for n in new if n.startswith(crate + "::") and cur[n].file == fns[m].get("file") and fn_sig(cur[n]) == fns[m]["sig"]]
        rivals = [m2 for m2 in missing if fns[m2].get("file") == fns[m].get("file") and fns[m2]["sig"] == fns[m]["sig"]]
        if len(c) == 1 and len(rivals) == 1:
            pairs[c[0]] = m
        elif len(c) > 1 and ref_of(fns[m], "print", cfg):
            # several same-signature functions were renamed together: tell them apart by their bodies
            c2 = [n for n in c if fn_print(prog, cur[n]) == ref_of(fns[m], "print", cfg)]
            r2 = [m2 for m2 in rivals if ref_of(fns[m2], "print", cfg) == ref_of(fns[m], "print", cfg)]
            if len(c2) == 1 and len(r2) == 1:
                pairs[c2[0]] = m
    # moved, not renamed: same name and signature in another file / impl block of the same crate
    def last(k):
        return re.sub(r"^.*::", "", k)
    for m in missing:
        if m in pairs.values():
            continue
        crate = m.split("::", 1)[0]
        c = [n for n in new if n not in pairs and n.startswith(crate + "::") and last(n) == last(m) and fn_sig(cur[n]) == fns[m]["sig"]]
        rivals = [m2 for m2 in missing if m2 not in pairs.values() and m2.startswith(crate + "::") and last(m2) == last(m) and fns[m2]["sig"] == fns[m]["sig"]]
        if len(c) == 1 and len(rivals) == 1:
            pairs[c[0]] = m
    field_map = {}
    for crate in ("redproxy_rs", "milu"):
        used_names = set(fl[0] for a in inv.get("adts", {}).values() for v in a for fl in v[1])
        for a in prog.items.get(crate, {}).get("adts", []):
            ref = inv.get("adts", {}).get(crate + "::" + a["path"])
            if not ref or len(ref) != len(a["variants"]):
                continue
            for (vname, rfields), v in zip(ref, a["variants"]):
                if len(rfields) != len(v["fields"]):
                    continue
                for (rname, rty), fl in zip(rfields, v["fields"]):
                    nty = prog.types[crate][fl["ty"]]["s"]
                    if fl["name"] != rname and nty == rty and fl["name"] not in used_names:
                        field_map["f:" + fl["name"]] = "f:" + rname
                        renames.append(("field %s::%s.%s" % (crate, a["path"], fl["name"]), rname))
                        fl["name"] = rname
    if not pairs and not field_map:
        return renames
    path_map = {}
    for n, m in pairs.items():
        path_map[n.split("::", 1)[1]] = m.split("::", 1)[1]
        renames.append((n, m))
    # longest first so that nested paths are rewritten consistently
    olds = sorted(path_map, key=len, reverse=True)

    def rn(sv):
        if not isinstance(sv, str):
            return sv
        for o in olds:
            if o in sv:
                # only whole path segments:  a::b::old  /  a::b::old::{closure#0}
                sv = re.sub(r"(?<![\w])" + re.escape(o) + r"(?![\w])", path_map[o], sv)
        return sv

    def walk(x):
        if isinstance(x, dict):
            for k in list(x.keys()):
                v = x[k]
                if isinstance(v, str):
                    if k in ("path", "res", "full", "def", "parent", "fn", "s", "trait_item"):
                        x[k] = rn(v)
                elif isinstance(v, (dict, list)):
                    walk(v)
        elif isinstance(x, list):
            for i, v in enumerate(x):
                if isinstance(v, str):
                    if v in field_map:
                        x[i] = field_map[v]
                elif isinstance(v, (dict, list)):
                    walk(v)

    for crate in ("redproxy_rs", "milu"):
        raw = prog.raw.get(crate)
        if raw is None:
            continue
        walk(raw["fns"])
        prog.fns = {k: f for k, f in prog.fns.items() if f.crate != crate}
        prog.by_crate[crate] = {}
        for fj in raw["fns"]:
            f = Fn(prog, crate, fj)
            prog.fns[f.key] = f
            prog.by_crate[crate][f.path] = f
    prog._cg = prog._rcg = prog._impls_of = None
    return renames


def top_key(key):
    """crate::path of the enclosing non-closure function"""
    return re.sub(r"(::\{closure#\d+\})+$", "", key)


# --------------------------------------------------------------------------- JSON rewriting helpers

def _map_place(p, lmap, upvars=None):
    """renumber the base local (and locals used as index projections)"""
    if upvars is not None and p and p[0] == 1 and len(p) >= 2:
        if isinstance(p[1], str) and p[1] in upvars:
            return [upvars[p[1]]] + [(_map_proj(x, lmap)) for x in p[2:]]
        if p[1] == "*" and len(p) >= 3 and isinstance(p[2], str) and p[2] in upvars:      # closure called through a reference
            return [upvars[p[2]]] + [(_map_proj(x, lmap)) for x in p[3:]]
    return [lmap(p[0])] + [_map_proj(x, lmap) for x in p[1:]]


def _map_proj(x, lmap):
    if isinstance(x, str) and x.startswith("i:"):
        try:
            return "i:%d" % lmap(int(x[2:]))
        except ValueError:
            return x
    return x


def _map_operand(o, lmap, upvars):
    if not isinstance(o, dict):
        return o
    o = dict(o)
    for k in ("m", "c"):
        if k in o:
            o[k] = _map_place(o[k], lmap, upvars)
    return o


def _map_rvalue(rv, lmap, upvars):
    rv = dict(rv)
    for k in ("a", "b"):
        if k in rv and isinstance(rv[k], dict):
            rv[k] = _map_operand(rv[k], lmap, upvars)
    if "p" in rv and isinstance(rv["p"], list):
        rv["p"] = _map_place(rv["p"], lmap, upvars)
    if "ops" in rv:
        rv["ops"] = [_map_operand(o, lmap, upvars) for o in rv["ops"]]
    return rv


def _map_stmt(st, lmap, upvars):
    st = dict(st)
    if "lhs" in st and isinstance(st["lhs"], list):
        st["lhs"] = _map_place(st["lhs"], lmap, upvars)
    if "rv" in st and isinstance(st["rv"], dict):
        st["rv"] = _map_rvalue(st["rv"], lmap, upvars)
    if "p" in st and isinstance(st["p"], list):
        st["p"] = _map_place(st["p"], lmap, upvars)
    if "l" in st and isinstance(st["l"], int) and st.get("k") in ("live", "dead", "storage_live", "storage_dead"):
        st["l"] = lmap(st["l"])
    return st


def _map_term(t, lmap, bmap, upvars):
    t = copy.deepcopy(t)
    k = t.get("k")
    for key in ("t", "o", "unwind", "cleanup", "drop"):
        if key in t and isinstance(t[key], int):
            t[key] = bmap(t[key])
    if "ts" in t:
        t["ts"] = [[v, bmap(b)] for v, b in t["ts"]]
    if "d" in t and isinstance(t["d"], dict):
        t["d"] = _map_operand(t["d"], lmap, upvars)
    if "cond" in t and isinstance(t["cond"], dict):
        t["cond"] = _map_operand(t["cond"], lmap, upvars)
    if "ops" in t:
        t["ops"] = [_map_operand(o, lmap, upvars) for o in t["ops"]]
    if "args" in t:
        t["args"] = [_map_operand(o, lmap, upvars) for o in t["args"]]
    if "dest" in t and isinstance(t["dest"], list) and t["dest"]:
        t["dest"] = _map_place(t["dest"], lmap, upvars)
    if "p" in t and isinstance(t["p"], list):
        t["p"] = _map_place(t["p"], lmap, upvars)
    if "v" in t and isinstance(t["v"], dict):
        t["v"] = _map_operand(t["v"], lmap, upvars)
    if "resume_arg" in t and isinstance(t["resume_arg"], list):
        t["resume_arg"] = _map_place(t["resume_arg"], lmap, upvars)
    if k == "call" and isinstance(t.get("f"), dict) and "op" in t["f"]:
        t["f"] = dict(t["f"])
        t["f"]["op"] = _map_operand(t["f"]["op"], lmap, upvars)
    return t


def splice(caller_j, call_bb, callee_j, mode, cont=None, result_local=None, upvar_args=None):
    """returns a new caller JSON with the callee body spliced at call_bb.
    mode 'sync': callee params _1.._n := call args, result -> call dest, continue at the call's target
    mode 'async': callee_j is the coroutine body; upvars (_1.f:k) := call args[k]; result -> result_local; continue at `cont`
                  (cont = (block, first statement index) in the caller)"""
    j = copy.deepcopy(caller_j)
    blocks = j["blocks"]
    locals_ = j["locals"]
    L0 = len(locals_)
    B0 = len(blocks)
    # parameters of the callee lose their names: a value keeps the name it has in the caller (`client`, not `from`)
    param_locals = set()
    if mode in ("sync", "closure"):
        param_locals = set(range(1, callee_j.get("arg_count", 0) + 1))
    else:
        for b in callee_j["blocks"]:
            for st in b.get("stmts", []):
                if st.get("k") == "assign" and len(st.get("lhs", [])) == 1 and st["rv"].get("k") == "use":
                    ap = st["rv"]["a"].get("m") or st["rv"]["a"].get("c")
                    if ap and len(ap) == 2 and ap[0] == 1 and isinstance(ap[1], str) and ap[1].startswith("f:"):
                        param_locals.add(st["lhs"][0])
    # ... except a parameter the callee itself changes (`mut head: &[u8]` used as a cursor, a reassigned accumulator): that is a variable
    # of the callee in its own right, exactly like the `let mut head = ..` it replaces when a block is extracted into a helper
    mutated = set()
    for b in callee_j["blocks"]:
        for st in b.get("stmts", []):
            if st.get("k") != "assign":
                continue
            rv = st["rv"]
            if rv.get("k") in ("ref", "rawptr") and rv.get("mut") and not rv.get("fake") and rv.get("p") and len(rv["p"]) == 1:
                mutated.add(rv["p"][0])
            if len(st.get("lhs", [])) == 1:
                mutated.add(("w", st["lhs"][0]))
    for i, l in enumerate(callee_j["locals"]):
        nl = dict(l, inlined=True)
        if i in param_locals and "name" in nl:
            if mode in ("sync", "closure") and (i in mutated or ("w", i) in mutated):
                pass
            else:
                nl["param_name"] = nl.pop("name")
        locals_.append(nl)
    call_t = blocks[call_bb]["term"]
    args = call_t.get("args", [])
    lmap = lambda l: L0 + l
    upvars = None
    entry_stmts = []
    sp = call_t.get("fsp") or blocks[call_bb].get("sp") or {}
    if mode == "closure":
        # args[0] is the closure value; its captures are the operands of the aggregate that built it (upvar_args); args[1:] are the
        # closure's parameters (_2.. of the closure body)
        upvars = {}
        for k, a in enumerate(upvar_args or []):
            nl = len(locals_)
            locals_.append({"ty": callee_j["locals"][1]["ty"], "param_name": None, "inlined": True})
            upvars["f:%d" % k] = nl
            entry_stmts.append({"k": "assign", "lhs": [nl], "rv": {"k": "use", "a": a}, "sp": sp})
        for k, a in enumerate(args[1:]):
            entry_stmts.append({"k": "assign", "lhs": [L0 + 2 + k], "rv": {"k": "use", "a": a}, "sp": sp})
    elif mode == "async":
        upvars = {}
        for k, a in enumerate(args):
            nl = len(locals_)
            src = callee_j.get("upvars", [])
            ty = None
            # type of the upvar: that of the named local the callee copies it into, if any
            for b in callee_j["blocks"]:
                for st in b.get("stmts", []):
                    if st.get("k") == "assign" and st["rv"].get("k") == "use":
                        ap = st["rv"]["a"].get("m") or st["rv"]["a"].get("c")
                        if ap and ap[:2] == [1, "f:%d" % k] and len(ap) == 2 and len(st["lhs"]) == 1:
                            ty = callee_j["locals"][st["lhs"][0]]["ty"]
            locals_.append({"ty": ty if ty is not None else callee_j["locals"][1]["ty"], "param_name": (src[k]["name"] if k < len(src) else None), "inlined": True})
            upvars["f:%d" % k] = nl
            entry_stmts.append({"k": "assign", "lhs": [nl], "rv": {"k": "use", "a": a}, "sp": sp})
    else:
        for k, a in enumerate(args):
            entry_stmts.append({"k": "assign", "lhs": [L0 + 1 + k], "rv": {"k": "use", "a": a}, "sp": sp})
    ncallee = len(callee_j["blocks"])
    E = B0 + ncallee            # synthetic entry
    Lb = B0 + ncallee + 1       # landing
    Cb = B0 + ncallee + 2       # continuation copy (async only)
    bmap = lambda b: B0 + b
    for b in callee_j["blocks"]:
        nb = {"stmts": [_map_stmt(st, lmap, upvars) for st in b.get("stmts", [])], "sp": b.get("sp"), "inlined": True}
        if b.get("cleanup"):
            nb["cleanup"] = True
        t = b.get("term")
        if t is not None:
            if t.get("k") == "return":
                nb["term"] = {"k": "goto", "t": Lb, "sp": t.get("sp")}
            else:
                nb["term"] = _map_term(t, lmap, bmap, upvars)
        blocks.append(nb)
    blocks.append({"stmts": entry_stmts, "term": {"k": "goto", "t": B0}, "sp": sp, "inlined": True})
    if mode in ("sync", "closure"):
        dest = call_t.get("dest") or []
        land = []
        if dest:
            land.append({"k": "assign", "lhs": list(dest), "rv": {"k": "use", "a": {"m": [L0]}}, "sp": sp})
        blocks.append({"stmts": land, "term": {"k": "goto", "t": call_t.get("t", call_bb)}, "sp": sp, "inlined": True})
        # the marker call no longer defines its destination (the landing block does)
        call_t["dest_orig"] = call_t.get("dest")
        call_t["dest"] = []
    else:
        land = []
        if result_local is not None:
            land.append({"k": "assign", "lhs": [result_local], "rv": {"k": "use", "a": {"m": [L0]}}, "sp": sp})
        blocks.append({"stmts": land, "term": {"k": "goto", "t": Cb}, "sp": sp, "inlined": True})
        cb, ci = cont
        blocks.append({"stmts": copy.deepcopy(blocks[cb].get("stmts", [])[ci:]), "term": copy.deepcopy(blocks[cb].get("term")), "sp": blocks[cb].get("sp"), "inlined": True})
    call_t["t"] = E
    call_t["inlined"] = callee_j["path"]
    j.setdefault("merged_from", []).append(callee_j["path"])
    # `helper(..)?`: a return site of the helper that is known to produce Ok (Err) continues directly on the Continue (Break) side of
    # the caller's `?`, so that "the helper returned early" and "the caller returned early" stay correlated in the CFG
    try:
        res_local = (call_t.get("dest_orig") or [None])[0] if mode in ("sync", "closure") else result_local
        cont_entry = blocks[Lb]["term"]["t"]
        _thread_try(blocks, callee_j, B0, L0, Lb, res_local, cont_entry, sp)
    except Exception:
        if os.environ.get("RPX_DEBUG_INLINE"):
            import traceback
            traceback.print_exc()
    return j


def _return_sites(callee_j):
    """[(block, variant)] blocks of the callee whose `goto` leads to the return with a return value of a known variant
    (the block itself assigns it, or it is the end of a straight chain of single-predecessor drop/goto blocks after the assignment)"""
    blocks = callee_j["blocks"]
    rets = set(i for i, b in enumerate(blocks) if (b.get("term") or {}).get("k") == "return")

    def succs(t):
        k = t.get("k")
        if k in ("goto", "drop", "assert"):
            return [t["t"]]
        if k == "call":
            return [t["t"]] if "t" in t else []
        if k == "switch":
            return [x[1] for x in t["ts"]] + [t["o"]]
        if k == "yield":
            return [t["t"]]
        return []
    npred = {}
    for i, b in enumerate(blocks):
        if b.get("cleanup"):
            continue
        for x in set(succs(b.get("term") or {})):
            npred[x] = npred.get(x, 0) + 1
    sites = []
    for i, b in enumerate(blocks):
        t = b.get("term") or {}
        var = None
        for st in b.get("stmts", []):
            if st.get("k") == "assign" and st.get("lhs") == [0]:
                rv = st["rv"]
                var = rv.get("variant") if rv.get("k") == "agg" and str(rv.get("def", "")).endswith(("result::Result", "option::Option")) else None
        start = None
        if var in ("Ok", "Err", "Some", "None"):
            start = i
        elif t.get("k") == "call" and t.get("dest") == [0] and str((t.get("f") or {}).get("path", "")).endswith("FromResidual::from_residual") and "t" in t:
            start, var = t["t"], "Err"
            if npred.get(start, 0) != 1 or any(st.get("k") == "assign" and st.get("lhs") == [0] for st in blocks[start].get("stmts", [])):
                continue
        if start is None:
            continue
        cur = start
        for _ in range(8):
            tt = blocks[cur].get("term") or {}
            if tt.get("k") in ("goto", "drop") and tt.get("t") in rets and (tt.get("k") == "goto" or not any(st.get("k") == "assign" for st in blocks[tt["t"]].get("stmts", []))):
                sites.append((cur, var))
                break
            if tt.get("k") in ("goto", "drop") and "t" in tt:
                nxt = tt["t"]
                if npred.get(nxt, 0) != 1:
                    # an empty join block in front of the return, shared with the other variant's path: this block is still the last
                    # one that belongs to this variant alone
                    nt = blocks[nxt].get("term") or {}
                    if not any(st.get("k") == "assign" for st in blocks[nxt].get("stmts", [])) and nt.get("k") == "goto" and nt.get("t") in rets:
                        sites.append((cur, var))
                    break
                if any(st.get("k") == "assign" and st.get("lhs") == [0] for st in blocks[nxt].get("stmts", [])):
                    break
                cur = nxt
                continue
            break
    return sites


def _thread_try(blocks, callee_j, B0, L0, Lb, res_local, cont_entry, sp):
    if res_local is None:
        return
    # the continuation must lead straight to Try::branch(<result>) and a switch on its discriminant
    b = cont_entry
    pre = []
    T = None
    for _ in range(10):
        blk = blocks[b]
        t = blk.get("term") or {}
        if any(st.get("k") == "assign" and st["rv"].get("k") != "use" for st in blk.get("stmts", [])):
            return
        pre.append(b)
        if t.get("k") == "call" and str((t.get("f") or {}).get("path", "")).endswith("ops::try_trait::Try::branch"):
            T = b
            break
        if t.get("k") == "goto" or (t.get("k") == "drop" and "t" in t):
            b = t["t"]
            continue
        return
    if T is None:
        return
    tc = blocks[T]["term"]
    arg = tc["args"][0].get("m") or tc["args"][0].get("c")
    if not arg or len(arg) != 1:
        return
    # the argument is the helper's result (possibly moved once)
    a = arg[0]
    ok_src = (a == res_local)
    for pb in pre:
        for st in blocks[pb].get("stmts", []):
            if st.get("k") == "assign" and st.get("lhs") == [a] and st["rv"].get("k") == "use":
                pl = st["rv"]["a"].get("m") or st["rv"]["a"].get("c")
                if pl == [res_local]:
                    ok_src = True
    if not ok_src or len(tc.get("dest", [])) != 1 or "t" not in tc:
        return
    BR = tc["dest"][0]
    D = tc["t"]
    dblk = blocks[D]
    dl = None
    for st in dblk.get("stmts", []):
        if st.get("k") == "assign" and st["rv"].get("k") == "discr" and st["rv"].get("p") == [BR] and len(st["lhs"]) == 1:
            dl = st["lhs"][0]
    dt = dblk.get("term") or {}
    if dl is None or dt.get("k") != "switch" or (dt["d"].get("m") or dt["d"].get("c")) != [dl]:
        return
    tg = dict((v, x) for v, x in dt["ts"])
    cont_t = tg.get(0, dt["o"] if 0 not in tg else None)
    brk_t = tg.get(1, dt["o"] if 1 not in tg else None)
    if cont_t is None or brk_t is None or cont_t == brk_t:
        return
    if os.environ.get("RPX_DEBUG_INLINE"):
        print("thread_try", callee_j.get("path"), _return_sites(callee_j), "cont", cont_t, "brk", brk_t, file=sys.stderr)
    for (cb_, var) in _return_sites(callee_j):
        mb = B0 + cb_
        # a copy of the way from the landing to the `?` (its moves, and the drops of the awaited future on the way), block by block
        stmts = [{"k": "assign", "lhs": [res_local], "rv": {"k": "use", "a": {"m": [L0]}}, "sp": sp}]
        first_nb = None
        prev_term = None
        for pb in pre:
            stmts += [copy.deepcopy(st) for st in blocks[pb].get("stmts", []) if st.get("k") == "assign"]
            pt = blocks[pb].get("term") or {}
            if pt.get("k") == "drop" and pb != T:
                blocks.append({"stmts": stmts, "term": {"k": "drop", "p": copy.deepcopy(pt.get("p")), "t": None}, "sp": sp, "inlined": True})
                if first_nb is None:
                    first_nb = len(blocks) - 1
                if prev_term is not None:
                    prev_term["t"] = len(blocks) - 1
                prev_term = blocks[-1]["term"]
                stmts = []
        if var in ("Ok", "Some"):
            stmts.append({"k": "assign", "lhs": [BR], "rv": {"k": "agg", "ak": "adt", "def": "core::ops::control_flow::ControlFlow", "variant": "Continue",
                                                           "fields": ["0"], "ops": [{"m": [a, "d:" + var, "f:0"]}]}, "sp": sp})
            target = cont_t
        else:
            stmts.append({"k": "assign", "lhs": [BR], "rv": {"k": "agg", "ak": "adt", "def": "core::ops::control_flow::ControlFlow", "variant": "Break",
                                                           "fields": ["0"], "ops": [{"m": [a]}]}, "sp": sp})
            target = brk_t
        blocks.append({"stmts": stmts, "term": {"k": "goto", "t": target}, "sp": sp, "inlined": True})
        if prev_term is not None:
            prev_term["t"] = len(blocks) - 1
        nb = first_nb if first_nb is not None else len(blocks) - 1
        mt = blocks[mb].get("term") or {}
        if mt.get("k") in ("goto", "drop") and "t" in mt:
            mt["t"] = nb


def _retype(prog, callee_j, from_crate, to_crate):
    """copy of a function's JSON whose type indices refer to the type table of another crate (entries are added when missing)"""
    src = prog.types[from_crate]
    dst = prog.types[to_crate]
    index = getattr(prog, "_tyindex_" + to_crate, None)
    if index is None:
        index = {}
        for i, t in enumerate(dst):
            index.setdefault(t["s"], i)
        setattr(prog, "_tyindex_" + to_crate, index)

    def tm(ix):
        t = src[ix]
        k = t["s"]
        if k not in index:
            dst.append(dict(t))
            index[k] = len(dst) - 1
        return index[k]

    def walk(x):
        if isinstance(x, dict):
            out = {}
            for k, v in x.items():
                if k == "ty" and isinstance(v, int):
                    out[k] = tm(v)
                elif k == "targs" and isinstance(v, list):
                    out[k] = [tm(i) if isinstance(i, int) else i for i in v]
                else:
                    out[k] = walk(v)
            return out
        if isinstance(x, list):
            return [walk(v) for v in x]
        return x
    return walk(callee_j)


# --------------------------------------------------------------------------- Option / Result combinators

# (type, method) -> per-variant behaviour.  Variant 0 = None / Ok, variant 1 = Some / Err.
#   ("pass",)            result = receiver's value of that variant, unchanged
#   ("wrap", V, "payload")   result = V(payload)            e.g. ok_or: Some(v) -> Ok(v)
#   ("wrap", V, ("arg", i))  result = V(args[i])
#   ("unit", V)          result = V  (None)
#   ("arg", i)           result = args[i]
#   ("payload",)         result = the payload
#   ("call", i, wrapV|None, with_payload)   result = [wrapV](args[i](payload?))
#   ("const", 0|1)       boolean constant
COMB = {
    ("Option", "map"): {0: ("unit", "None"), 1: ("call", 1, "Some", True)},
    ("Option", "and_then"): {0: ("unit", "None"), 1: ("call", 1, None, True)},
    ("Option", "map_or"): {0: ("arg", 1), 1: ("call", 2, None, True)},
    ("Option", "map_or_else"): {0: ("call", 1, None, False), 1: ("call", 2, None, True)},
    ("Option", "unwrap_or"): {0: ("arg", 1), 1: ("payload",)},
    ("Option", "unwrap_or_else"): {0: ("call", 1, None, False), 1: ("payload",)},
    ("Option", "ok_or"): {0: ("wrap", "Err", ("arg", 1)), 1: ("wrap", "Ok", "payload")},
    ("Option", "ok_or_else"): {0: ("call", 1, "Err", False), 1: ("wrap", "Ok", "payload")},
    ("Option", "or_else"): {0: ("call", 1, None, False), 1: ("pass",)},
    ("Option", "or"): {0: ("arg", 1), 1: ("pass",)},
    ("Option", "is_some_and"): {0: ("const", 0), 1: ("call", 1, None, True)},
    ("Option", "filter"): {0: ("unit", "None"), 1: ("filter", 1)},
    # bool receivers: variant 0 = false, 1 = true (the switch is on the value itself)
    ("bool", "then"): {0: ("unit", "None"), 1: ("call", 1, "Some", False)},
    ("bool", "then_some"): {0: ("unit", "None"), 1: ("wrap", "Some", ("arg", 1))},
    ("Result", "map"): {0: ("call", 1, "Ok", True), 1: ("pass",)},
    ("Result", "map_err"): {0: ("pass",), 1: ("call", 1, "Err", True)},
    ("Result", "and_then"): {0: ("call", 1, None, True), 1: ("pass",)},
    ("Result", "or_else"): {0: ("pass",), 1: ("call", 1, None, True)},
    ("Result", "ok"): {0: ("wrap", "Some", "payload"), 1: ("unit", "None")},
    ("Result", "err"): {0: ("unit", "None"), 1: ("wrap", "Some", "payload")},
    ("Result", "unwrap_or"): {0: ("payload",), 1: ("arg", 1)},
    ("Result", "unwrap_or_else"): {0: ("payload",), 1: ("call", 1, None, True)},
    ("Result", "is_ok_and"): {0: ("call", 1, None, True), 1: ("const", 0)},
    ("Result", "is_err_and"): {0: ("const", 0), 1: ("call", 1, None, True)},
}
VNAME = {"Option": {0: "None", 1: "Some"}, "Result": {0: "Ok", 1: "Err"}, "bool": {0: "false", 1: "true"}}
VDEF = {"None": "core::option::Option", "Some": "core::option::Option", "Ok": "core::result::Result", "Err": "core::result::Result"}


def desugar_combinators(prog, Fn, F):
    """Replace `recv.map_or(d, |v| ..)`-style calls in F by the control flow they stand for (a switch on the receiver's variant, the
    closure body spliced in), so that rules reason about Option/Result combinator chains exactly as about match / if let.
    The original call stays as a marker.  Returns the rebuilt Fn (or F when nothing was done)."""
    changed = True
    rounds = 0
    while changed and rounds < 40:
        changed = False
        rounds += 1
        for c in F.calls:
            m = re.search(r"(Option)::<T>::(\w+)$|(Result)::<T, E>::(\w+)$|(bool)::<impl bool>::(\w+)$", c.path or "")
            if not m or c.term.get("inlined") or c.target is None or len(c.dest) != 1:
                continue
            ty, meth = (m.group(1), m.group(2)) if m.group(1) else ((m.group(3), m.group(4)) if m.group(3) else (m.group(5), m.group(6)))
            spec = COMB.get((ty, meth))
            if spec is None:
                continue
            recv = c.args[0].get("m") or c.args[0].get("c")
            if not recv or len(recv) != 1:
                continue
            # closures used by this combinator must be literals built in this function
            clos = {}
            ok = True
            for v, act in spec.items():
                if act[0] in ("call", "filter"):
                    a = c.args[act[1]] if act[1] < len(c.args) else None
                    l = (a.get("m") or a.get("c") or [None])[0] if a and "k" not in a else None
                    d = F.single_def(l) if l is not None else None
                    if not d or d[1] == "term" or d[2]["k"] != "agg" or d[2].get("ak") != "closure":
                        ok = False
                        break
                    cf = prog.fns.get(F.crate + "::" + d[2]["def"])
                    if cf is None:
                        ok = False
                        break
                    clos[v] = (cf, d[2]["ops"], a)
            if not ok:
                continue
            j = copy.deepcopy(F.j)
            blocks = j["blocks"]
            locals_ = j["locals"]
            t = blocks[c.bb]["term"]
            sp = t.get("fsp") or blocks[c.bb].get("sp") or {}
            dest = list(t["dest"])
            cont = t["t"]
            bool_ty = None
            disc = len(locals_)
            locals_.append({"ty": locals_[dest[0]]["ty"], "inlined": True})
            D = len(blocks)
            if ty == "bool":
                blocks.append({"stmts": [{"k": "assign", "lhs": [disc], "rv": {"k": "use", "a": {"c": [recv[0]]}}, "sp": sp}], "term": None, "sp": sp, "inlined": True})
                locals_[disc]["ty"] = locals_[recv[0]]["ty"]
            else:
                blocks.append({"stmts": [{"k": "assign", "lhs": [disc], "rv": {"k": "discr", "p": [recv[0]]}, "sp": sp}], "term": None, "sp": sp, "inlined": True})
            arms = {}
            pending = []
            for v, act in spec.items():
                payload = {"m": [recv[0], "d:" + VNAME[ty][v], "f:0"]} if ty != "bool" else {"c": [recv[0]]}
                stmts = []
                bi = len(blocks)
                blocks.append({"stmts": stmts, "term": {"k": "goto", "t": cont}, "sp": sp, "inlined": True})
                arms[v] = bi
                if act[0] == "pass":
                    stmts.append({"k": "assign", "lhs": dest, "rv": {"k": "use", "a": {"m": [recv[0]]}}, "sp": sp})
                elif act[0] == "unit":
                    stmts.append({"k": "assign", "lhs": dest, "rv": {"k": "agg", "ak": "adt", "def": VDEF[act[1]], "variant": act[1], "fields": [], "ops": []}, "sp": sp})
                elif act[0] == "wrap":
                    op = payload if act[2] == "payload" else c.args[act[2][1]]
                    stmts.append({"k": "assign", "lhs": dest, "rv": {"k": "agg", "ak": "adt", "def": VDEF[act[1]], "variant": act[1], "fields": ["0"], "ops": [op]}, "sp": sp})
                elif act[0] == "arg":
                    stmts.append({"k": "assign", "lhs": dest, "rv": {"k": "use", "a": c.args[act[1]]}, "sp": sp})
                elif act[0] == "payload":
                    stmts.append({"k": "assign", "lhs": dest, "rv": {"k": "use", "a": payload}, "sp": sp})
                elif act[0] == "const":
                    stmts.append({"k": "assign", "lhs": dest, "rv": {"k": "use", "a": {"k": {"ty": locals_[dest[0]]["ty"], "s": "true" if act[1] else "false", "int": act[1]}}}, "sp": sp})
                elif act[0] == "filter":
                    # Some(x) if pred(&x) { Some(x) } else { None }
                    cf, ops, carg = clos[v]
                    rl = len(locals_)
                    locals_.append({"ty": cf.j["locals"][2]["ty"], "inlined": True})
                    bl = len(locals_)
                    locals_.append({"ty": cf.j["locals"][0]["ty"], "inlined": True})
                    stmts.append({"k": "assign", "lhs": [rl], "rv": {"k": "ref", "mut": False, "fake": False, "p": [recv[0], "d:Some", "f:0"]}, "sp": sp})
                    swb = len(blocks)
                    blocks.append({"stmts": [], "term": None, "sp": sp, "inlined": True})
                    nob = len(blocks)
                    blocks.append({"stmts": [{"k": "assign", "lhs": dest, "rv": {"k": "agg", "ak": "adt", "def": VDEF["None"], "variant": "None", "fields": [], "ops": []}, "sp": sp}],
                                   "term": {"k": "goto", "t": cont}, "sp": sp, "inlined": True})
                    yeb = len(blocks)
                    blocks.append({"stmts": [{"k": "assign", "lhs": dest, "rv": {"k": "use", "a": {"m": [recv[0]]}}, "sp": sp}],
                                   "term": {"k": "goto", "t": cont}, "sp": sp, "inlined": True})
                    blocks[swb]["term"] = {"k": "switch", "d": {"m": [bl]}, "ts": [[0, nob]], "o": yeb}
                    blocks[bi]["term"] = {"k": "call", "f": {"path": cf.path, "crate": F.crate, "full": cf.path, "targs": [], "res": cf.path, "res_crate": F.crate},
                                          "args": [carg, {"m": [rl]}], "dest": [bl], "t": swb, "fsp": sp}
                    pending.append((bi, cf, ops))
                elif act[0] == "call":
                    cf, ops, carg = clos[v]
                    wrapv = act[2]
                    tmp = dest[0]
                    after = cont
                    if wrapv:
                        tmp = len(locals_)
                        locals_.append({"ty": cf.j["locals"][0]["ty"], "inlined": True})
                        wb = len(blocks)
                        blocks.append({"stmts": [{"k": "assign", "lhs": dest, "rv": {"k": "agg", "ak": "adt", "def": VDEF[wrapv], "variant": wrapv, "fields": ["0"],
                                                                                     "ops": [{"m": [tmp]}]}, "sp": sp}],
                                       "term": {"k": "goto", "t": cont}, "sp": sp, "inlined": True})
                        after = wb
                    cargs = [carg] + ([payload] if act[3] else [])
                    blocks[bi]["term"] = {"k": "call", "f": {"path": cf.path, "crate": F.crate, "full": cf.path, "targs": [], "res": cf.path, "res_crate": F.crate},
                                          "args": cargs, "dest": [tmp], "t": after, "fsp": sp}
                    pending.append((bi, cf, ops))
            tsw = [[v, arms[v]] for v in sorted(arms)]
            blocks[D]["term"] = {"k": "switch", "d": {"m": [disc]}, "ts": tsw[:-1] if False else [[0, arms[0]]], "o": arms[1]}
            t["t"] = D
            t["dest_orig"] = t.get("dest")
            t["dest"] = []
            t["inlined"] = "combinator:%s::%s" % (ty, meth)
            # splice the closure bodies
            for (bi, cf, ops) in pending:
                j = splice(j, bi, cf.j, "closure", upvar_args=ops)
                j.setdefault("spliced_closures", [])
                if cf.key not in j["spliced_closures"]:
                    j["spliced_closures"].append(cf.key)
            F = Fn(prog, F.crate, j)
            changed = True
            break
    if rounds > 1 and not os.environ.get("RPX_NO_THREAD"):
        j = copy.deepcopy(F.j)
        if thread_variants(prog, F.crate, j):
            F = Fn(prog, F.crate, j)
    return F


# --------------------------------------------------------------------------- variant jump threading

_VIDX = {"None": 0, "Some": 1, "Ok": 0, "Err": 1}


def _tsucc(t):
    k = (t or {}).get("k")
    if k in ("goto", "drop", "assert", "yield"):
        return [t["t"]] if "t" in t else []
    if k == "call":
        return [t["t"]] if "t" in t else []
    if k == "switch":
        return [x[1] for x in t["ts"]] + [t["o"]]
    return []


def thread_variants(prog, crate, j, limit=60):
    """Tail duplication over known enum variants.  After combinators were turned into control flow, a value whose variant is known
    at the end of an arm (`r = Err(..)`, or `r = <the receiver>` on the arm where the receiver is Err) often flows through a join into
    the next test of the same value (`?`, the next combinator's switch, a match).  The path from the arm to that test is duplicated and
    ends in a jump to the arm the variant selects, so the control-flow graph no longer contains the combination "arm Err, then
    continue as if Ok".  Whole blocks are copied and nothing is removed: the transformation preserves behaviour.
    Mutates j in place; returns the number of threaded paths."""
    blocks = j["blocks"]
    locals_ = j["locals"]
    types = prog.types[crate]

    def kind_of(l):
        s_ = types[locals_[l]["ty"]]["s"] if l < len(locals_) else ""
        if s_.startswith("core::option::Option<"):
            return ("None", "Some")
        if s_.startswith("core::result::Result<"):
            return ("Ok", "Err")
        return None

    def preds():
        pr = {}
        for i, b in enumerate(blocks):
            if b.get("cleanup"):
                continue
            for x in set(_tsucc(b.get("term"))):
                pr.setdefault(x, []).append(i)
        return pr

    def local_facts(bi, facts):
        facts = dict(facts)
        for st in blocks[bi].get("stmts", []):
            if st.get("k") != "assign":
                continue
            lhs, rv = st["lhs"], st["rv"]
            if len(lhs) == 1:
                if rv["k"] == "agg" and rv.get("ak") == "adt" and str(rv.get("def", "")).endswith(("option::Option", "result::Result")) \
                        and rv.get("variant") in _VIDX:
                    facts[lhs[0]] = rv["variant"]
                    continue
                if rv["k"] == "use":
                    pl = rv["a"].get("m") or rv["a"].get("c")
                    if pl and len(pl) == 1 and pl[0] in facts:
                        facts[lhs[0]] = facts[pl[0]]
                        continue
                facts.pop(lhs[0], None)
            elif lhs:
                facts.pop(lhs[0], None)
            if rv["k"] in ("ref", "rawptr") and rv.get("mut") and rv["p"] and rv["p"][0] in facts and len(rv["p"]) == 1:
                facts.pop(rv["p"][0], None)
        return facts

    def edge_fact(pi, bi):
        """variant known on the edge pi -> bi because pi switches on a discriminant"""
        t = blocks[pi].get("term") or {}
        if t.get("k") != "switch":
            return {}
        d = (t["d"].get("m") or t["d"].get("c") or [None])
        if len(d) != 1:
            return {}
        src = None
        for st in blocks[pi].get("stmts", []):
            if st.get("k") == "assign" and st["lhs"] == [d[0]]:
                src = st["rv"]["p"] if st["rv"]["k"] == "discr" else None
        if not src or len(src) != 1:
            return {}
        names = kind_of(src[0])
        if not names:
            return {}
        vals = [v for v, x in t["ts"] if x == bi]
        if t["o"] == bi:
            if len(t["ts"]) == 1 and t["ts"][0][1] != bi and t["ts"][0][0] in (0, 1):
                vals = [1 - t["ts"][0][0]]
            else:
                return {}
        if len(vals) != 1 or vals[0] not in (0, 1):
            return {}
        return {src[0]: names[vals[0]]}

    def exit_facts(bi, pr, depth=3):
        ent = {}
        ps = pr.get(bi, [])
        if len(ps) == 1 and depth > 0 and ps[0] != bi:
            pt = blocks[ps[0]].get("term") or {}
            if pt.get("k") in ("goto", "drop", "switch"):
                ent = exit_facts(ps[0], pr, depth - 1)
                if pt.get("k") == "drop" and pt.get("p"):
                    ent.pop(pt["p"][0], None)
            ent.update(edge_fact(ps[0], bi))
        return local_facts(bi, ent)

    def touches(st, names):
        if st.get("k") != "assign":
            return False
        if st["lhs"] and st["lhs"][0] in names:
            return True
        rv = st["rv"]
        if rv["k"] in ("ref", "rawptr") and rv.get("mut") and rv["p"] and rv["p"][0] in names:
            return True
        return False

    done = 0
    tried = set()
    for _ in range(limit):
        pr = preds()
        hit = None
        for si, sb in enumerate(blocks):
            if sb.get("cleanup") or sb.get("term") is None:
                continue
            st_ = sb["term"]
            if st_.get("k") not in ("goto", "drop") or "t" not in st_:
                continue
            facts = exit_facts(si, pr)
            if st_.get("k") == "drop" and st_.get("p"):
                facts.pop(st_["p"][0], None)
            for R, V in sorted(facts.items()):
                if (si, R) in tried:
                    continue
                names = {R}
                moved = set()
                refs = {}
                chain = []
                cur = st_["t"]
                seen = {si}
                test = None
                for _n in range(12):
                    if cur in seen or cur >= len(blocks):
                        break
                    seen.add(cur)
                    blk = blocks[cur]
                    t = blk.get("term") or {}
                    stmts = blk.get("stmts", [])
                    # renames inside the block
                    nn = set(names)
                    bad = False
                    dsc = None
                    for st in stmts:
                        if st.get("k") != "assign":
                            continue
                        rv = st["rv"]
                        if len(st["lhs"]) == 1 and rv["k"] == "ref" and not rv.get("mut") and len(rv["p"]) == 1 and rv["p"][0] in nn:
                            refs[st["lhs"][0]] = rv["p"][0]
                            continue
                        if len(st["lhs"]) == 1 and rv["k"] == "use":
                            pl = rv["a"].get("m") or rv["a"].get("c")
                            if pl and len(pl) == 1 and pl[0] in nn:
                                nn.add(st["lhs"][0])
                                if rv["a"].get("m"):
                                    moved.add(pl[0])          # moved out: a later drop of it is a no-op
                                moved.discard(st["lhs"][0])
                                continue
                        if len(st["lhs"]) == 1 and rv["k"] == "discr" and len(rv["p"]) == 1 and rv["p"][0] in nn:
                            dsc = (st["lhs"][0], rv["p"][0])
                            continue
                        if touches(st, nn):
                            bad = True
                    if bad:
                        break
                    if dsc and t.get("k") == "switch" and (t["d"].get("m") or t["d"].get("c")) == [dsc[0]]:
                        test = ("switch", cur, dsc[1])
                        break
                    if t.get("k") == "call" and str((t.get("f") or {}).get("path", "")).endswith("ops::try_trait::Try::branch") and "t" in t \
                            and not t.get("inlined") and len(t.get("dest") or []) == 1:
                        a = t["args"][0].get("m") or t["args"][0].get("c")
                        if a and len(a) == 1 and a[0] in nn:
                            test = ("try", cur, a[0])
                        break
                    pm = re.search(r"(Option::<T>::(is_none|is_some)|Result::<T, E>::(is_ok|is_err))$", str((t.get("f") or {}).get("path", ""))) \
                        if t.get("k") == "call" else None
                    if pm and "t" in t and not t.get("inlined") and len(t.get("dest") or []) == 1:
                        a = t["args"][0].get("m") or t["args"][0].get("c")
                        if a and len(a) == 1 and a[0] in refs:
                            test = ("pred:" + (pm.group(2) or pm.group(3)), cur, refs[a[0]])
                        break
                    if t.get("k") == "goto" or (t.get("k") == "drop" and t.get("p") and (t["p"][0] not in nn or (t["p"][0] in moved and len(t["p"]) == 1))) or \
                            (t.get("k") == "call" and t.get("inlined") and t.get("inlined") != "skipped" and "t" in t and not t.get("dest")):
                        chain.append(cur)
                        names = nn
                        cur = t["t"]
                        continue
                    break
                tried.add((si, R))
                if test is None:
                    continue
                kind, tb, n = test
                names_ = kind_of(n) or kind_of(R)
                if not names_ or V not in names_:
                    continue
                idx = _VIDX[V]
                tblk = blocks[tb]
                if kind == "switch":
                    tt = tblk["term"]
                    tg = dict((v, x) for v, x in tt["ts"])
                    target = tg.get(idx)
                    if target is None:
                        if len(tg) == 1 and (1 - idx) in tg:
                            target = tt["o"]
                        else:
                            continue
                    extra = []
                elif kind.startswith("pred:"):
                    tc = tblk["term"]
                    Bl = tc["dest"][0]
                    D = tc["t"]
                    dblk = blocks[D]
                    dt = dblk.get("term") or {}
                    okd = all(st.get("k") != "assign" or st["rv"].get("k") == "use" for st in dblk.get("stmts", []))
                    sw = (dt.get("d") or {}).get("m") or (dt.get("d") or {}).get("c") if dt.get("k") == "switch" else None
                    alias = {Bl}
                    for st in dblk.get("stmts", []):
                        if st.get("k") == "assign" and len(st["lhs"]) == 1 and st["rv"].get("k") == "use":
                            pl = st["rv"]["a"].get("m") or st["rv"]["a"].get("c")
                            if pl and len(pl) == 1 and pl[0] in alias:
                                alias.add(st["lhs"][0])
                    if not okd or not sw or len(sw) != 1 or sw[0] not in alias:
                        continue
                    truth = {"is_none": V == "None", "is_some": V == "Some", "is_ok": V == "Ok", "is_err": V == "Err"}[kind[5:]]
                    tg = dict((v, x) for v, x in dt["ts"])
                    if 0 not in tg or tg[0] == dt["o"]:
                        continue
                    target = dt["o"] if truth else tg[0]
                    sp = tblk.get("sp") or {}
                    extra = [{"k": "assign", "lhs": [Bl], "rv": {"k": "use", "a": {"k": {"ty": locals_[Bl]["ty"], "s": "true" if truth else "false", "int": int(truth)}}}, "sp": sp}] + \
                        [copy.deepcopy(st) for st in dblk.get("stmts", [])]
                else:
                    tc = tblk["term"]
                    BR = tc["dest"][0]
                    D = tc["t"]
                    dblk = blocks[D]
                    dl = None
                    okd = True
                    for st in dblk.get("stmts", []):
                        if st.get("k") != "assign":
                            continue
                        if st["rv"].get("k") == "discr" and st["rv"].get("p") == [BR] and len(st["lhs"]) == 1:
                            dl = st["lhs"][0]
                        elif st["rv"].get("k") != "use":
                            okd = False
                    dt = dblk.get("term") or {}
                    if not okd or dl is None or dt.get("k") != "switch" or (dt["d"].get("m") or dt["d"].get("c")) != [dl]:
                        continue
                    tg = dict((v, x) for v, x in dt["ts"])
                    # `?`: Some / Ok continue (ControlFlow::Continue = 0), None / Err break (= 1) -- not the variant's own index
                    idx = 0 if V in ("Some", "Ok") else 1
                    target = tg.get(idx)
                    if target is None:
                        if len(tg) == 1 and (1 - idx) in tg:
                            target = dt["o"]
                        else:
                            continue
                    sp = tblk.get("sp") or {}
                    if idx == 0:
                        agg = {"k": "agg", "ak": "adt", "def": "core::ops::control_flow::ControlFlow", "variant": "Continue", "fields": ["0"],
                               "ops": [{"m": [n, "d:" + V, "f:0"]}]}
                    else:
                        agg = {"k": "agg", "ak": "adt", "def": "core::ops::control_flow::ControlFlow", "variant": "Break", "fields": ["0"],
                               "ops": [{"m": [n]}]}
                    extra = [{"k": "assign", "lhs": [BR], "rv": agg, "sp": sp}] + [copy.deepcopy(st) for st in dblk.get("stmts", [])]
                hit = (si, chain, tb, target, extra)
                break
            if hit:
                break
        if not hit:
            break
        si, chain, tb, target, extra = hit
        first = len(blocks)
        seq = chain + [tb]
        for k, cb in enumerate(seq):
            ob = blocks[cb]
            nb = {"stmts": copy.deepcopy(ob.get("stmts", [])), "sp": ob.get("sp"), "inlined": True, "threaded": cb}
            if cb == tb and k == len(seq) - 1:
                nb["stmts"] += extra
                nb["term"] = {"k": "goto", "t": target}
            else:
                ot = ob["term"]
                if ot.get("k") == "drop":
                    nt = copy.deepcopy(ot)
                    nt["t"] = first + k + 1
                    nt.pop("u", None)
                else:
                    nt = {"k": "goto", "t": first + k + 1}
                nb["term"] = nt
            blocks.append(nb)
        blocks[si]["term"]["t"] = first
        done += 1
    return done


# --------------------------------------------------------------------------- driver

def expand(prog, Fn, log=None):
    """splice helpers that are not in the reference inventory into their callers; mutates prog.fns / prog.by_crate"""
    from .flow import awaited
    inv = load_inventory()
    if inv is None:
        return []
    prog.renamed = normalise_renames(prog, Fn, inv)
    # combinator chains are rewritten into control flow in every function that is new or whose body differs from the inventory
    prog.desugared = []
    if not os.environ.get("RPX_NO_DESUGAR"):
        finv = inv.get("fns", {})
        cfg_ = getattr(prog, "meta", {}).get("config")
        deep_cache = {}
        for k in sorted(prog.fns):
            f0 = prog.fns.get(k)
            if f0 is None or f0.crate not in ("redproxy_rs", "milu"):
                continue
            tk = top_key(k)
            top = prog.fns.get(tk)
            ref = finv.get(tk)
            rp, rn_, rd_ = ref_of(ref, "print", cfg_), ref_of(ref, "nblocks", cfg_), ref_of(ref, "deep", cfg_)
            if tk not in deep_cache:
                deep_cache[tk] = fn_print_deep(prog, top) if top is not None else None
            edited = ref is None or (top is not None and rp and fn_print(prog, top) != rp) or \
                (rn_ is not None and top is not None and len(prog.body_of(top).blocks) != rn_) or \
                (rd_ is not None and deep_cache[tk] is not None and deep_cache[tk] != rd_)
            if not edited and not os.environ.get("RPX_FORCE_DESUGAR"):
                continue
            try:
                nf = desugar_combinators(prog, Fn, f0)
            except Exception:
                nf = f0
            if nf is not f0:
                prog.fns[k] = nf
                prog.by_crate[nf.crate][nf.path] = nf
                prog.desugared.append(k)
                # a closure literal consumed by a rewritten combinator now lives inside its user
                for ck in nf.j.get("spliced_closures", []):
                    g = prog.fns.get(ck)
                    if g is None:
                        continue
                    uses = sum(1 for b in nf.j["blocks"] for st in b.get("stmts", [])
                               if st["k"] == "assign" and st["rv"]["k"] == "agg" and st["rv"].get("ak") == "closure"
                               and nf.crate + "::" + st["rv"]["def"] == ck and not b.get("inlined"))
                    if uses == 1:
                        prog.fns.pop(ck, None)
                        prog.by_crate[g.crate].pop(g.path, None)
                        g.j["merged_away"] = True
        prog._cg = prog._rcg = None
    inv = set(inv["fns"])
    done = []
    for _round in range(4):
        new_tops = sorted(k for k, f in prog.fns.items() if f.kind in ("Fn", "AssocFn") and k not in inv and f.crate in ("redproxy_rs", "milu")
                          and not f.j.get("trait_item") and not f.j.get("merged_away"))
        if not new_tops:
            break
        # helpers that call no other (still present) new helper first
        progress = False
        for hk in new_tops:
            H = prog.fns.get(hk)
            if H is None:
                continue
            body = prog.body_of(H)
            is_async = body is not H
            if any(c.local_key() in new_tops and c.local_key() != hk and c.local_key() in prog.fns for c in body.calls):
                continue          # inline its own new callees first (next round)
            if any(c.local_key() == hk for c in body.calls):
                continue          # recursive helper: leave it alone
            sites = [(F, c) for F in list(prog.fns.values()) for c in F.calls if c.local_key() == hk and not F.key.startswith(hk + "::")]
            if not sites:
                continue
            all_ok = True
            # splice site by site; a caller with several sites is rebuilt after each splice
            for _ in range(len(sites)):
                sites = [(F, c) for F in list(prog.fns.values()) for c in F.calls
                         if c.local_key() == hk and not F.key.startswith(hk + "::") and not c.term.get("inlined")]
                if not sites:
                    break
                F, c = sites[0]
                callee_body_j = body.j if is_async else H.j
                if F.crate != H.crate:
                    callee_body_j = _retype(prog, callee_body_j, H.crate, F.crate)
                if is_async:
                    aw = awaited(F, c)
                    cont = None
                    res = None
                    if aw and aw.get("poll") is not None:
                        pd = aw["poll"].dest[0]
                        for bb in F.reachable:
                            for i, st in enumerate(F.stmts(bb)):
                                if st["k"] == "assign" and st["rv"]["k"] == "use":
                                    p = st["rv"]["a"].get("m") or st["rv"]["a"].get("c")
                                    if p and p[0] == pd and len(p) >= 3 and p[1] == "d:Ready" and len(st["lhs"]) == 1:
                                        cont = (bb, i + 1)
                                        res = st["lhs"][0]
                    if cont is None:
                        all_ok = False
                        c.term["inlined"] = "skipped"      # future not awaited here (spawned, selected, stored)
                        continue
                    nj = splice(F.j, c.bb, callee_body_j, "async", cont=cont, result_local=res)
                else:
                    nj = splice(F.j, c.bb, callee_body_j, "sync")
                nF = Fn(prog, F.crate, nj)
                prog.fns[nF.key] = nF
                prog.by_crate[F.crate][nF.path] = nF
                progress = True
                done.append((hk, F.key))
            if all_ok:
                # every use was spliced: the helper is no longer a function of its own
                for k in [hk, hk + "::{closure#0}"] if is_async else [hk]:
                    g = prog.fns.pop(k, None)
                    if g is not None:
                        prog.by_crate[g.crate].pop(g.path, None)
                        g.j["merged_away"] = True
        prog._cg = prog._rcg = None
        if not progress:
            break
    return done
