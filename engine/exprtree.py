"""Rebuild the expression tree of combinator-style code from MIR.

A node is a tuple:
  ('call', callee_short, callee_path, [children], Call)
  ('tuple', [children]) ('array', [children])
  ('fn', def_path)        reified function item
  ('str', value) ('int', value) ('char', value)
  ('closure', def_path, [captured children])
  ('arg', n) ('local', n) ('other', text)
"""
from .mir import op_place, op_const, const_str, const_int, short


def build(fn, op, depth=0, seen=None):
    seen = seen or set()
    k = op_const(op)
    if k is not None:
        if "fn" in k:
            return ("fn", k["fn"])
        s = const_str(op)
        if s is not None:
            return ("str", s)
        if "int" in k:
            tys = fn.ty(k["ty"])["k"]
            if tys == "char":
                return ("char", chr(k["int"]))
            return ("int", k["int"])
        return ("other", k.get("s", ""))
    p = op_place(op)
    if p is None:
        return ("other", str(op))
    return build_local(fn, p[0], depth, seen)


def build_local(fn, l, depth=0, seen=None):
    seen = seen or set()
    if depth > 60 or l in seen:
        return ("local", l)
    if 1 <= l <= fn.arg_count:
        return ("arg", l)
    ds = fn.defs.get(l, [])
    if len(ds) != 1:
        return ("local", l)
    seen = seen | {l}
    b, i, rv = ds[0]
    if i == "term":
        if rv["k"] != "call":
            return ("local", l)
        c = fn.call_at(b)
        kids = [build(fn, a, depth + 1, seen) for a in c.args]
        nm = c.name or ("indirect" if c.indirect else "?")
        return ("call", short(nm), nm, kids, c)
    k = rv["k"]
    if k == "use":
        return build(fn, rv["a"], depth + 1, seen)
    if k == "cast":
        return build(fn, rv["a"], depth + 1, seen)
    if k == "ref":
        return build_local(fn, rv["p"][0], depth + 1, seen)
    if k == "agg":
        ak = rv.get("ak")
        kids = [build(fn, o, depth + 1, seen) for o in rv["ops"]]
        if ak in ("tuple", "array"):
            return (ak, kids)
        if ak in ("closure", "coroutine"):
            return ("closure", rv["def"], kids)
        return ("adt", rv.get("def"), rv.get("variant"), kids)
    return ("other", k)


def walk(node):
    """pre-order traversal yielding every node"""
    yield node
    t = node[0]
    kids = []
    if t == "call":
        kids = node[3]
    elif t in ("tuple", "array"):
        kids = node[1]
    elif t == "closure":
        kids = node[2]
    elif t == "adt":
        kids = node[3]
    for k in kids:
        for x in walk(k):
            yield x


def show(node, ind=0):
    t = node[0]
    pad = "  " * ind
    if t == "call":
        s = pad + node[1] + "\n"
        for k in node[3]:
            s += show(k, ind + 1)
        return s
    if t in ("tuple", "array"):
        s = pad + t + "\n"
        for k in node[1]:
            s += show(k, ind + 1)
        return s
    if t == "closure":
        s = pad + "closure " + node[1] + "\n"
        for k in node[2]:
            s += show(k, ind + 1)
        return s
    return pad + repr(node[:3]) + "\n"
