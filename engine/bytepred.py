"""Exhaustive evaluation of pure predicates over a byte.

A closure or function `fn(u8 | &u8) -> bool` that touches its argument only through comparisons, bit operations and a few std
classification helpers has a truth table of 256 rows.  The table is obtained by interpreting the function's MIR once per byte
value (an abstract interpretation over a finite domain: no project code is executed).  Anything the interpreter does not
understand makes the result None, and the caller must fall back or fail closed.
"""
import re

from .mir import op_place, const_int

STD_U8 = {
    r"is_ascii_control$": lambda b: b <= 0x1f or b == 0x7f,
    r"is_ascii_whitespace$": lambda b: b in (0x20, 0x09, 0x0a, 0x0c, 0x0d),
    r"is_ascii_graphic$": lambda b: 0x21 <= b <= 0x7e,
    r"is_ascii_alphanumeric$": lambda b: (0x30 <= b <= 0x39) or (0x41 <= b <= 0x5a) or (0x61 <= b <= 0x7a),
    r"is_ascii_alphabetic$": lambda b: (0x41 <= b <= 0x5a) or (0x61 <= b <= 0x7a),
    r"is_ascii_digit$": lambda b: 0x30 <= b <= 0x39,
    r"is_ascii_punctuation$": lambda b: (0x21 <= b <= 0x2f) or (0x3a <= b <= 0x40) or (0x5b <= b <= 0x60) or (0x7b <= b <= 0x7e),
    r"is_ascii$": lambda b: b <= 0x7f,
}


class Unknown(Exception):
    pass


def _run(prog, fn, argvals, depth=0, start_bb=0, init_env=None, stop_at=None):
    """interpret fn with concrete integer/bool arguments; returns the value of _0.
    With start_bb / init_env / stop_at: interpret a region of the body from start_bb with the given locals and return ("stop", block)
    when a block of stop_at is entered."""
    if depth > 4:
        raise Unknown("depth")
    env = {}
    for i, v in enumerate(argvals):
        env[i + 1] = v
    if init_env:
        env.update(init_env)

    def rd_place(p):
        l = p[0]
        v = env.get(l)
        for x in p[1:]:
            if x == "*":
                continue          # references are modelled by value
            if isinstance(v, dict) and x in v:
                v = v[x]
                continue
            raise Unknown("projection %s" % x)
        if v is None:
            raise Unknown("uninitialised _%d" % l)
        return v

    def rd(o):
        c = const_int(o)
        if c is not None:
            return c
        p = op_place(o)
        if p is None:
            if isinstance(o, dict) and isinstance(o.get("k"), dict) and o["k"].get("s") == "()":
                return 0                      # the unit value of a statement-position block
            raise Unknown("operand")
        return rd_place(p)

    b = start_bb
    steps = 0
    first = True
    while True:
        steps += 1
        if steps > 400:
            raise Unknown("loop")
        if stop_at is not None and b in stop_at and not first:
            return ("stop", b)
        first = False
        for st in fn.stmts(b):
            if st["k"] != "assign":
                continue
            rv = st["rv"]
            k = rv["k"]
            if k == "use":
                v = rd(rv["a"])
            elif k in ("ref", "rawptr"):
                v = rd_place(rv["p"])
            elif k == "cast":
                v = rd(rv["a"])
            elif k == "unop":
                a = rd(rv["a"])
                if rv["op"] == "Not":
                    v = (0 if a else 1) if a in (0, 1, True, False) else (~a) & 0xff
                elif rv["op"] == "Neg":
                    v = -a
                else:
                    raise Unknown("unop")
            elif k == "binop":
                a, c = rd(rv["a"]), rd(rv["b"])
                op = rv["op"]
                base = op.replace("WithOverflow", "").replace("Unchecked", "")
                if base == "Lt":
                    v = int(a < c)
                elif base == "Le":
                    v = int(a <= c)
                elif base == "Gt":
                    v = int(a > c)
                elif base == "Ge":
                    v = int(a >= c)
                elif base == "Eq":
                    v = int(a == c)
                elif base == "Ne":
                    v = int(a != c)
                elif base == "BitAnd":
                    v = a & c
                elif base == "BitOr":
                    v = a | c
                elif base == "BitXor":
                    v = a ^ c
                elif base == "Add":
                    v = a + c
                elif base == "Sub":
                    v = a - c
                elif base == "Shr":
                    v = a >> c
                elif base == "Shl":
                    v = (a << c)
                else:
                    raise Unknown("binop %s" % op)
                if op.endswith("WithOverflow"):
                    v = {"f:0": v, "f:1": 0}
            elif k == "agg" and rv.get("ak") == "tuple":
                v = {"f:%d" % i: rd(o) for i, o in enumerate(rv["ops"])}
            elif k == "agg" and rv.get("def", "").endswith(("RangeInclusive", "ops::range::Range")):
                v = {"f:" + n: rd(o) for n, o in zip(rv.get("fields", []), rv["ops"])}
                v["__range"] = rv["def"]
            elif k == "discr":
                raise Unknown("discriminant")
            else:
                raise Unknown("rvalue %s" % k)
            lhs = st["lhs"]
            if len(lhs) == 1 or lhs[1:] == ["*"]:
                env[lhs[0]] = v
            else:
                raise Unknown("store to projection")
        t = fn.term(b)
        k = t["k"]
        if k == "return":
            if 0 not in env:
                raise Unknown("no return value")
            return env[0]
        if k == "goto":
            b = t["t"]
        elif k == "switch":
            d = rd(t["d"])
            tgt = None
            for v, tb in t["ts"]:
                if v == int(d):
                    tgt = tb
            b = tgt if tgt is not None else t["o"]
        elif k == "assert":
            b = t["t"]
        elif k == "call":
            c = fn.call_at(b)
            path = c.path or ""
            args = [rd(a) for a in c.args]
            res = None
            for rx, f_ in STD_U8.items():
                if re.search(r"num::<impl u8>::" + rx, path) or re.search(r"char::methods::<impl char>::" + rx, path):
                    res = int(bool(f_(args[0])))
            if res is None and re.search(r"RangeInclusive::<[^>]*>::new$", path):
                res = {"f:start": args[0], "f:end": args[1], "__range": "RangeInclusive"}
            if res is None and re.search(r"ops::range::(Range|RangeInclusive)::<[^>]*>::contains$", path):
                r_, x = args
                incl = "Inclusive" in path
                res = int(r_["f:start"] <= x and (x <= r_["f:end"] if incl else x < r_["f:end"]))
            if res is None and re.search(r"cmp::PartialEq::(eq|ne)$", path) and all(isinstance(a, int) for a in args):
                res = int((args[0] == args[1]) == path.endswith("eq"))
            if res is None and re.search(r"cmp::PartialOrd::(lt|le|gt|ge)$", path) and all(isinstance(a, int) for a in args):
                res = int({"lt": args[0] < args[1], "le": args[0] <= args[1], "gt": args[0] > args[1], "ge": args[0] >= args[1]}[path.rsplit("::", 1)[1]])
            if res is None:
                lk = c.local_key()
                g = prog.fns.get(lk) if lk else None
                if g is not None and g.kind in ("Fn", "AssocFn") and all(isinstance(a, int) for a in args):
                    res = _run(prog, g, args, depth + 1)
            if res is None:
                raise Unknown("call %s" % path)
            if len(c.dest) == 1:
                env[c.dest[0]] = res
            else:
                raise Unknown("call dest")
            if c.target is None:
                raise Unknown("diverging call")
            b = c.target
        else:
            raise Unknown("terminator %s" % k)


def truth_table(prog, fn, byte_arg):
    """[bool]*256 for a predicate whose `byte_arg`-th argument (1-based) is the byte; None if it cannot be interpreted"""
    out = []
    for v in range(256):
        args = [0] * fn.arg_count
        args[byte_arg - 1] = v
        try:
            r = _run(prog, fn, args)
        except Unknown:
            return None
        except Exception:
            return None
        out.append(bool(r))
    return out


def byte_arg_of(fn):
    """index (1-based) of the u8 / &u8 parameter of a predicate closure or function"""
    for i in range(1, fn.arg_count + 1):
        s = fn.local_ty_s(i)
        if s in ("u8", "&u8", "&&u8") or s.endswith("u8") and "closure" not in s and "&mut" not in s[:5]:
            return i
    return None


def region_table(prog, fn, start_bb, place_local, make_value, stop_at):
    """for each byte value: the block of stop_at that a walk from start_bb reaches when local `place_local` holds make_value(byte);
    None when the region cannot be interpreted"""
    out = []
    for v in range(256):
        try:
            r = _run(prog, fn, [], start_bb=start_bb, init_env={place_local: make_value(v)}, stop_at=set(stop_at))
        except Unknown:
            return None
        except Exception:
            return None
        if not (isinstance(r, tuple) and r[0] == "stop"):
            return None
        out.append(r[1])
    return out
