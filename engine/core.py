"""Check bookkeeping: rule instances, findings, known-findings subtraction, evidence."""
import json
import os
import sys
import time

VERIF = os.path.dirname(os.path.dirname(os.path.abspath(__file__)))
KNOWN_PATH = os.path.join(VERIF, "known_findings.json")
EVID_DIR = os.environ.get("RPX_EVIDENCE_DIR") or os.path.join(VERIF, "evidence")


class Finding:
    def __init__(self, prop, rule, key, where, msg, detail=None):
        self.prop = prop
        self.rule = rule
        self.key = key
        self.where = where
        self.msg = msg
        self.detail = detail or {}

    def to_json(self):
        return {"property": self.prop, "rule": self.rule, "key": self.key, "where": self.where,
                "message": self.msg, "detail": self.detail}


class Check:
    """One run of one property's rules over one or more fact sets."""

    def __init__(self, prop, tier="quick", seed=0):
        self.prop = prop
        self.tier = tier
        self.seed = seed
        self.t0 = time.time()
        self.findings = []          # list[Finding]
        self._keys = {}             # key -> ordinal counter base
        self.instances = []         # examined rule instances (dict)
        self.rule_counts = {}       # rule -> [examined, discharged]
        self.floors = []            # (rule, have, need)
        self.notes = []
        self.assumptions = []
        self.not_decided = []
        self.configs = []
        self.analysed = {}
        self.selftests = []
        self.config = None          # current config label
        self._seen_inst = set()

    # ---------------------------------------------------------------- recording
    def key(self, rule, fn, what, root=""):
        base = "%s|%s|%s|%s|%s" % (self.prop, rule, fn, what, root)
        return base

    def instance(self, rule, where, desc, ok, why="", nontrivial=True):
        """record an examined rule instance (for evidence); ok=True means discharged"""
        ident = (rule, desc)
        c = self.rule_counts.setdefault(rule, [0, 0, 0])
        if ident in self._seen_inst:
            return
        self._seen_inst.add(ident)
        c[0] += 1
        if ok:
            c[1] += 1
        if nontrivial:
            c[2] += 1
        if len([i for i in self.instances if i["rule"] == rule]) < 6:
            self.instances.append({"rule": rule, "where": where, "instance": desc,
                                   "verdict": "holds" if ok else "FAILS", "why": why})

    def finding(self, rule, fn, what, root, where, msg, detail=None):
        base = self.key(rule, fn, what, root)
        # ordinal among identical keys (within one config run)
        ck = (self.config, base)
        n = self._keys.get(ck, 0)
        self._keys[ck] = n + 1
        key = base + "|%d" % n
        for f in self.findings:
            if f.key == key:
                return f  # same construct seen in another cfg configuration
        f = Finding(self.prop, rule, key, where, msg, detail)
        self.findings.append(f)
        return f

    def anchor_missing(self, rule, what, msg=None):
        self.finding(rule, "-", "anchor-missing", what, "-",
                     msg or ("anchor missing: %s (the rule cannot be evaluated; failing closed)" % what))

    def floor(self, rule, have, need, what=""):
        self.floors.append({"rule": rule, "have": have, "need": need, "what": what, "config": self.config})
        if have < need:
            self.finding(rule, "-", "floor", what or rule, "-",
                         "rule %s examined %d instances (%s), fewer than the %d confirmed by hand: "
                         "an anchor moved or vanished; failing closed" % (rule, have, what, need))

    def note(self, s):
        if s not in self.notes:
            self.notes.append(s)

    # ---------------------------------------------------------------- finish
    def finish(self, explanation, rule_text, trusted=None):
        known = load_known()
        kmap = {k["key"]: k for k in known.get("known", []) if k.get("property") == self.prop}
        viol = []
        known_hit = []
        for f in self.findings:
            if f.key in kmap:
                known_hit.append((f, kmap[f.key]))
            else:
                viol.append(f)
        os.makedirs(EVID_DIR, exist_ok=True)
        vpath = os.path.join(EVID_DIR, "%s.violations.json" % self.prop)
        for f, k in known_hit:
            print("KNOWN-FINDING: property=%s %s [%s] %s" % (self.prop, k.get("what", f.msg), f.key, f.where))
        if viol:
            with open(vpath, "w") as fh:
                json.dump([f.to_json() for f in viol], fh, indent=1)
            for f in viol:
                print("VIOLATION property=%s replay=%s" % (self.prop, vpath))
                print("  rule=%s at %s\n  key=%s\n  %s" % (f.rule, f.where, f.key, f.msg))
        elif os.path.exists(vpath):
            os.remove(vpath)
        examined = sum(c[0] for c in self.rule_counts.values())
        nontrivial = sum(c[2] for c in self.rule_counts.values())
        discharged = sum(c[1] for c in self.rule_counts.values())
        cov = {
            "explanation": explanation,
            "evaluations": max(examined, 1),
            "distinct_nontrivial": nontrivial,
            "rule": rule_text,
            "samples": self.instances[:40] or [{"note": "no instance"}],
            "rule_instances": {r: {"examined": c[0], "discharged": c[1]} for r, c in sorted(self.rule_counts.items())},
            "discharged": discharged,
            "floors": self.floors,
            "configs": self.configs,
            "analysed": self.analysed,
            "known_findings_reported": [f.key for f, _ in known_hit],
            "not_decided": self.not_decided,
            "selftests": self.selftests,
            "notes": self.notes,
            "trusted_base": trusted or [],
            "exhaustive": False,
        }
        ev = {
            "property_id": self.prop,
            "tier": self.tier,
            "seed": self.seed,
            "level": "other",
            "coverage": cov,
            "assumptions": self.assumptions,
            "wall_s": round(time.time() - self.t0, 3),
            "violations": len(viol),
        }
        with open(os.path.join(EVID_DIR, "%s.json" % self.prop), "w") as fh:
            json.dump(ev, fh, indent=1)
        summary = "property=%s tier=%s configs=%s rule-instances examined=%d discharged=%d findings=%d known=%d violations=%d wall=%.1fs" % (
            self.prop, self.tier, ",".join(self.configs), examined, discharged, len(self.findings),
            len(known_hit), len(viol), time.time() - self.t0)
        print(summary)
        return 1 if viol else 0


def load_known():
    if not os.path.exists(KNOWN_PATH):
        return {"known": [], "fixed": []}
    with open(KNOWN_PATH) as fh:
        return json.load(fh)
