"""Small dataflow helpers over the MIR model (value flow, branches, awaits)."""
import re
from collections import deque

from .mir import op_place, op_local, op_base, op_const, const_int, rv_operands

AWAIT_PLUMBING = [
    r"core::future::into_future::IntoFuture::into_future$",
    r"core::pin::Pin::<Ptr>::new_unchecked$",
    r"core::future::future::Future::poll$",
    r"core::pin::Pin::<Ptr>::as_mut$",
]
RESULT_ADAPTORS = [
    r"easy_error::ResultExt::context$",
    r"easy_error::ResultExt::with_context$",
    r"core::result::Result::<T, E>::map_err$",
    r"core::ops::try_trait::Try::branch$",
]


def _matches(pats, name):
    for p in pats:
        if re.search(p, name):
            return True
    return False


def flow_forward(fn, seeds, pass_calls=(), field_sensitive=False):
    """Forward value flow from the locals in `seeds`.

    Returns (tracked: dict local -> origin description, consumers: list of
    (kind, bb, info, local)).  Flow-insensitive over MIR temporaries (which are
    single-assignment in practice); pass_calls are regexes of callee def paths
    through which the value passes from any argument to the destination."""
    tracked = {s: "seed" for s in seeds}
    consumers = []
    changed = True
    seen_cons = set()

    def cons(kind, b, info, l):
        k = (kind, b, id(info) if not isinstance(info, (str, int)) else info, l)
        if k in seen_cons:
            return
        seen_cons.add(k)
        consumers.append((kind, b, info, l))

    while changed:
        changed = False
        for b in fn.reachable:
            for st in fn.stmts(b):
                if st["k"] != "assign":
                    continue
                rv = st["rv"]
                lhs = st["lhs"]
                k = rv["k"]
                src = None
                if k in ("use", "cast", "repeat"):
                    src = op_base(rv["a"])
                elif k in ("ref", "rawptr"):
                    src = rv["p"][0]
                elif k == "agg":
                    for o in rv["ops"]:
                        if op_base(o) in tracked:
                            src = op_base(o)
                            break
                elif k == "discr":
                    if rv["p"][0] in tracked:
                        cons("discr", b, rv, rv["p"][0])
                    continue
                elif k in ("binop", "unop"):
                    for o in rv_operands(rv):
                        if op_base(o) in tracked:
                            cons(k, b, rv, op_base(o))
                    continue
                if src is not None and src in tracked:
                    if len(lhs) == 1:
                        if lhs[0] not in tracked:
                            tracked[lhs[0]] = ("from", src)
                            changed = True
                        if lhs[0] == 0:
                            cons("return", b, rv, src)
                    else:
                        cons("store", b, st, src)
            t = fn.term(b)
            if not t:
                continue
            if t["k"] == "call":
                c = fn.call_at(b)
                hit = [op_base(a) for a in c.args if op_base(a) in tracked]
                if hit:
                    if _matches(pass_calls, c.name) or (c.path and _matches(pass_calls, c.path)):
                        d = c.dest
                        if len(d) == 1 and d[0] not in tracked:
                            tracked[d[0]] = ("call", c.name)
                            changed = True
                    else:
                        cons("call", b, c, hit[0])
            elif t["k"] == "switch":
                l = op_base(t["d"])
                if l in tracked:
                    cons("switch", b, t, l)
            elif t["k"] == "assert":
                for o in [t["cond"]] + t.get("ops", []):
                    if op_base(o) in tracked:
                        cons("assert", b, t, op_base(o))
            elif t["k"] == "yield":
                l = op_base(t["v"])
                if l in tracked:
                    cons("yield", b, t, l)
    return tracked, consumers


def awaited(fn, call):
    """For `call(..).await`: returns dict(poll=<Call of Future::poll>, result=<local
    holding the Ready value> or None, yield_bb=...), or None if the call's
    value is not awaited in this body."""
    if len(call.dest) != 1:
        return None
    tracked, cons = flow_forward(fn, [call.dest[0]], AWAIT_PLUMBING[:2] + AWAIT_PLUMBING[3:])
    for kind, b, info, l in cons:
        if kind == "call" and re.search(AWAIT_PLUMBING[2], info.path or ""):
            poll = info
            res = None
            pd = poll.dest[0]
            # result: a statement  X = move ((pd as Ready).0)
            for bb in fn.reachable:
                for st in fn.stmts(bb):
                    if st["k"] == "assign" and st["rv"]["k"] == "use":
                        p = op_place(st["rv"]["a"])
                        if p and p[0] == pd and len(p) >= 3 and p[1] == "d:Ready" and len(st["lhs"]) == 1:
                            res = st["lhs"][0]
            ybb = None
            for y in fn.yields():
                # the yield that loops back to this poll
                if poll.bb in fn.reach_from([fn.succ[y][0]], avoid=[y]) and y in fn.reach_from([poll.target] if poll.target is not None else []):
                    ybb = y
                    break
            return {"poll": poll, "result": res, "yield_bb": ybb, "tracked": tracked}
    return None


def poll_yield_map(fn):
    """yield block -> list of Future::poll calls in the same await loop"""
    out = {}
    polls = [c for c in fn.calls if re.search(AWAIT_PLUMBING[2], c.path or "")]
    for y in fn.yields():
        nxt = fn.succ[y][0] if fn.succ[y] else None
        if nxt is None:
            continue
        ps = []
        # the poll whose Pending edge leads to this yield and which is re-reached after it
        back = fn.reach_from([nxt], avoid=[y])
        for p in polls:
            if p.target is None:
                continue
            if p.bb in back and y in fn.reach_from([p.target], avoid=[p.bb]):
                ps.append(p)
        # keep the closest: the poll from which y is reachable without passing another poll
        close = []
        for p in ps:
            others = [q.bb for q in polls if q is not p]
            if y in fn.reach_from([p.target], avoid=others):
                close.append(p)
        out[y] = close or ps
    return out


# --------------------------------------------------------------------------- branches

def bool_branch(fn, local, as_variable=False):
    """Find switchInt terminators that test the boolean held in `local`
    (directly or through Not / copies).  Returns list of (bb, true_target, false_target).
    `as_variable`: the caller reasons about every definition of the local (a flag variable), not about one producer."""
    out = []
    # forward: local -> copies / Not
    if len(fn.defs.get(local, ())) > 1 and not as_variable:
        return out   # assigned on several paths (`x = a || f()`): a test of the local is not a test of this one value
    pol = {local: True}
    changed = True
    while changed:
        changed = False
        for b in fn.reachable:
            for st in fn.stmts(b):
                if st["k"] != "assign" or len(st["lhs"]) != 1:
                    continue
                rv = st["rv"]
                l = st["lhs"][0]
                if l in pol:
                    continue
                if len(fn.defs.get(l, ())) != 1:
                    continue   # a local assigned on several paths (`a || b`) is not an alias of one of its sources
                if rv["k"] == "use" and op_local(rv["a"]) in pol:
                    pol[l] = pol[op_local(rv["a"])]
                    changed = True
                elif rv["k"] == "unop" and rv["op"] == "Not" and op_local(rv["a"]) in pol:
                    pol[l] = not pol[op_local(rv["a"])]
                    changed = True
    for b in fn.reachable:
        t = fn.term(b)
        if t and t["k"] == "switch":
            l = op_local(t["d"])
            if l in pol:
                zero = None
                for v, tb in t["ts"]:
                    if v == 0:
                        zero = tb
                other = t["o"]
                if zero is None:
                    continue
                if pol[l]:
                    out.append((b, other, zero))
                else:
                    out.append((b, zero, other))
    return out


def discr_branch(fn, local):
    """switches on the discriminant of the enum in `local` (followed through
    moves/copies/refs).  Returns list of (bb, {variant_index: target}, otherwise)."""
    alias = {local}
    changed = True
    while changed:
        changed = False
        for b in fn.reachable:
            for st in fn.stmts(b):
                if st["k"] != "assign" or len(st["lhs"]) != 1:
                    continue
                rv = st["rv"]
                l = st["lhs"][0]
                if l in alias:
                    continue
                if rv["k"] == "use":
                    p = op_place(rv["a"])
                    if p and p[0] in alias and all(x == "*" for x in p[1:]):
                        alias.add(l)
                        changed = True
                elif rv["k"] == "ref":
                    p = rv["p"]
                    if p[0] in alias and all(x == "*" for x in p[1:]):
                        alias.add(l)
                        changed = True
    out = []
    dl = {}
    for b in fn.reachable:
        for st in fn.stmts(b):
            if st["k"] == "assign" and st["rv"]["k"] == "discr" and len(st["lhs"]) == 1:
                p = st["rv"]["p"]
                if p[0] in alias and all(x == "*" for x in p[1:]):
                    dl[st["lhs"][0]] = b
    for b in fn.reachable:
        t = fn.term(b)
        if t and t["k"] == "switch":
            l = op_local(t["d"])
            if l in dl:
                out.append((b, {v: tb for v, tb in t["ts"]}, t["o"]))
    return out


def edge_dominates(fn, a, b, c):
    """every path entry -> c passes the edge a->b"""
    if c not in fn.reachable:
        return False
    return c not in fn.reach_from([0], avoid_edges={(a, b)})


def must_pass(fn, start_blocks, through, to_blocks):
    """every path from any of start_blocks to any of to_blocks passes a block in `through`"""
    r = fn.reach_from(start_blocks, avoid=through)
    return not (set(to_blocks) & r)


def blocks_between(fn, start, stop_set):
    return fn.reach_from([start], avoid=stop_set)


def call_result_branch(fn, call):
    """for a call returning bool: (true_target, false_target) lists"""
    if len(call.dest) != 1:
        return []
    return bool_branch(fn, call.dest[0])


def const_args_str(call):
    from .mir import const_str
    return [const_str(a) for a in call.args]


def uses_of(fn, local):
    """all (bb, kind) where `local` is read (not StorageDead/Drop)"""
    out = []
    for b in fn.reachable:
        for st in fn.stmts(b):
            if st["k"] != "assign":
                continue
            rv = st["rv"]
            k = rv["k"]
            hit = False
            if k in ("ref", "rawptr", "discr"):
                hit = rv["p"][0] == local
            else:
                for o in rv_operands(rv):
                    if op_base(o) == local:
                        hit = True
            # index projections
            for x in st["lhs"][1:]:
                if x == "i:%d" % local:
                    hit = True
            if hit:
                out.append((b, k))
        t = fn.term(b)
        if not t:
            continue
        if t["k"] == "call":
            for a in t["args"]:
                if op_base(a) == local:
                    out.append((b, "call"))
            ind = t["f"].get("indirect")
            if ind and op_base(ind) == local:
                out.append((b, "callee"))
        elif t["k"] == "switch" and op_base(t["d"]) == local:
            out.append((b, "switch"))
        elif t["k"] == "assert":
            for o in [t["cond"]] + t.get("ops", []):
                if op_base(o) == local:
                    out.append((b, "assert"))
        elif t["k"] == "yield" and op_base(t["v"]) == local:
            out.append((b, "yield"))
    return out


# --------------------------------------------------------------------------- reaching values

def _def_sites(fn, local):
    """[(bb, idx|'term', rvalue-or-call)] whole-local definitions of `local`"""
    return fn.defs.get(local, [])


def _rd_full(fn, local):
    """block -> set of def sites of `local` reaching the END of the block (function-wide reaching definitions)"""
    cache = getattr(fn, "_rd_cache", None)
    if cache is None:
        cache = fn._rd_cache = {}
    if local in cache:
        return cache[local]
    gen = {}
    for (b, i, rv) in _def_sites(fn, local):
        key = (b, i)
        cur = gen.get(b)
        if cur is None or (cur[1] != "term" and (i == "term" or i > cur[1])):
            gen[b] = key
    out = {b: set() for b in fn.reachable}
    if 1 <= local <= fn.arg_count:
        entry = {("arg", local)}
    else:
        entry = set()
    changed = True
    order = fn.rpo
    while changed:
        changed = False
        for b in order:
            if b in gen:
                new = {gen[b]}
            else:
                new = set(entry) if b == 0 else set()
                for p in fn.pred[b]:
                    if p in out:
                        new |= out[p]
            if new != out[b]:
                out[b] = new
                changed = True
    cache[local] = out
    return out


def value_sources(fn, local, at_bb, at_idx=None, via_edge=None, depth=8, _seen=None):
    """Possible sources of the value `local` holds just before statement `at_idx` of block `at_bb` (None = at the terminator),
    optionally considering only executions that pass the edge via_edge=(sb, tb) last before reaching at_bb without re-entering...
    (precisely: paths tb ->* at_bb inside the region reachable from tb).
    Returns a set of tuples: ('const', value) ('call', Call) ('arg', n) ('agg', variant, def) ('place', tuple(place)) ('binop', op) ('unknown', x)."""
    _seen = _seen or set()
    key = (local, at_bb, at_idx, via_edge)
    if key in _seen or depth <= 0:
        return {("unknown", "cycle")}
    _seen = _seen | {key}
    sites = _def_sites(fn, local)
    bydef = {(b, i): rv for (b, i, rv) in sites}
    # definitions inside at_bb before at_idx
    inblock = [(i, rv) for (b, i, rv) in sites if b == at_bb and i != "term" and (at_idx is None or (at_idx != "term" and i < at_idx) or at_idx == "term")]
    if at_idx is None:
        # at the terminator: a call dest in this very block defines after the terminator, so it does not count
        pass
    reaching = set()
    if inblock:
        reaching = {(at_bb, max(i for i, rv in inblock))}
    else:
        full = _rd_full(fn, local)
        if via_edge is None:
            for p in fn.pred[at_bb]:
                reaching |= full.get(p, set())
            if at_bb == 0 and 1 <= local <= fn.arg_count:
                reaching.add(("arg", local))
        else:
            sb, tb = via_edge
            region = fn.reach_from([tb])
            # reaching definitions restricted to paths that start with the edge sb->tb
            gen = {}
            for (b, i, rv) in sites:
                cur = gen.get(b)
                if cur is None or (cur[1] != "term" and (i == "term" or i > cur[1])):
                    gen[b] = (b, i)
            inn = {b: set() for b in region}
            out = {b: set() for b in region}
            start = set(full.get(sb, set()))
            changed = True
            while changed:
                changed = False
                for b in region:
                    new_in = set(start) if b == tb else set()
                    for p in fn.pred[b]:
                        if p in region and not (b == tb and p == sb):
                            new_in |= out[p]
                        elif b == tb and p == sb:
                            new_in |= start
                    new_out = {gen[b]} if b in gen else new_in
                    if new_in != inn[b] or new_out != out[b]:
                        inn[b], out[b] = new_in, new_out
                        changed = True
            reaching = inn.get(at_bb, set()) if at_bb in region else set()
    res = set()
    for site in reaching:
        if site[0] == "arg":
            res.add(("arg", site[1]))
            continue
        b, i = site
        rv = bydef.get((b, i))
        if rv is None:
            res.add(("unknown", str(site)))
            continue
        if i == "term":
            c = fn.call_at(b)
            res.add(("call", c) if c is not None else ("unknown", "yield"))
            continue
        k = rv["k"]
        if k == "use":
            a = rv["a"]
            if "k" in a:
                kk = a["k"]
                res.add(("const", kk.get("int") if "int" in kk else kk.get("s")))
            else:
                p = op_place(a)
                if len(p) == 1:
                    res |= value_sources(fn, p[0], b, i, via_edge if (via_edge and b in fn.reach_from([via_edge[1]])) else None, depth - 1, _seen)
                else:
                    res.add(("place", tuple(p)))
        elif k == "agg":
            res.add(("agg", rv.get("variant"), rv.get("def"), b))
        elif k == "cast":
            p = op_place(rv["a"]) if "k" not in rv["a"] else None
            if p and len(p) == 1:
                res |= value_sources(fn, p[0], b, i, None, depth - 1, _seen)
            else:
                res.add(("unknown", "cast"))
        elif k == "unop" and rv["op"] == "Not":
            p = op_place(rv["a"]) if "k" not in rv["a"] else None
            inner = value_sources(fn, p[0], b, i, None, depth - 1, _seen) if p and len(p) == 1 else {("unknown", "not")}
            for s in inner:
                if s[0] == "const" and s[1] in (0, 1, True, False):
                    res.add(("const", 0 if s[1] else 1))
                else:
                    res.add(("not",) + s)
        elif k == "binop":
            res.add(("binop", rv["op"], b))
        else:
            res.add(("unknown", k))
    return res


def returned_on_edge(fn, sb, tb):
    """sources of the function's return value over the executions that take the edge sb->tb: union over the return blocks
    reachable from tb"""
    out = set()
    region = fn.reach_from([tb])
    for r in fn.returns():
        if r in region:
            out |= value_sources(fn, 0, r, None, (sb, tb))
    return out


def option_tests(fn, locals_of_interest=None):
    """every test of an Option/Result-like two-variant value in fn, whatever its spelling:
    is_none()/is_some()/is_err()/is_ok() calls and discriminant switches (match / if let / let-else / ?).
    Returns [dict(root=<local tested (after following refs/as_ref)>, place=<full place tuple>, pos=(sb, tb) edge on which variant 1
    (Some / Err) holds, neg=(sb, tb) edge for variant 0 (None / Ok), how=str)]"""
    out = []
    def root_of(l):
        # follow refs / as_ref / as_mut / copies back to the tested value
        tr = fn.trace(l, through_calls=[r"Option::<T>::as_(ref|mut|deref|deref_mut)$", r"Result::<T, E>::as_(ref|mut)$"])
        place = None
        for k, info in tr:
            if k in ("ref", "place"):
                place = tuple(info)
        if place:
            return place[0], place
        return l, (l,)
    for c in fn.calls:
        m = re.search(r"(Option::<T>::(is_none|is_some)|Result::<T, E>::(is_err|is_ok))$", c.path or "")
        if not m or not c.args or len(c.dest) != 1:
            continue
        which = m.group(2) or m.group(3)
        l = op_base(c.args[0])
        if l is None:
            continue
        r, pl = root_of(l)
        for (sb, tt, ft) in bool_branch(fn, c.dest[0]):
            if which in ("is_some", "is_err"):
                out.append(dict(root=r, place=pl, pos=(sb, tt), neg=(sb, ft), how=which, kind="Option" if "Option" in c.path else "Result"))
            else:
                out.append(dict(root=r, place=pl, pos=(sb, ft), neg=(sb, tt), how=which, kind="Option" if "Option" in c.path else "Result"))
    for b in fn.reachable:
        for st in fn.stmts(b):
            if st["k"] == "assign" and st["rv"]["k"] == "discr" and len(st["lhs"]) == 1:
                p = st["rv"]["p"]
                tys = fn.local_ty_s(p[0]) if len(p) == 1 else ""
                d = st["lhs"][0]
                t = fn.term(b)
                # the switch on this discriminant (same block or via copies)
                for bb in fn.reachable:
                    tt_ = fn.term(bb)
                    if tt_ and tt_["k"] == "switch" and op_base(tt_["d"]) == d:
                        tg = dict((v, x) for v, x in tt_["ts"])
                        oth = tt_["o"]
                        if len(p) > 1:
                            kind = "?"          # payload of another enum: its type is not in the dump
                        elif tys.startswith("core::option::Option<"):
                            kind = "Option"
                        elif tys.startswith("core::result::Result<"):
                            kind = "Result"
                        elif tys.startswith("core::ops::control_flow::ControlFlow<"):
                            kind = "Flow"          # 0 = Continue (the Ok/Some side of `?`), 1 = Break
                        else:
                            continue
                        v1 = tg.get(1, oth if (1 not in tg and len(tg) == 1) else None)
                        v0 = tg.get(0, oth if (0 not in tg and len(tg) == 1) else None)
                        if v1 is None or v0 is None or v1 == v0:
                            continue
                        r, pl = (p[0], tuple(p)) if len(p) > 1 else root_of(p[0])
                        out.append(dict(root=r, place=pl if len(p) == 1 else tuple(p), pos=(bb, v1), neg=(bb, v0), how="match", kind=kind,
                                        local=p[0] if len(p) == 1 else None))
    if locals_of_interest is not None:
        out = [o for o in out if o["root"] in locals_of_interest or o["place"][0] in locals_of_interest or o.get("local") in locals_of_interest]
    return out


# --------------------------------------------------------------------------- what a branch implies

def truth_implies(fn, local, want=True, depth=6, _seen=None):
    """Facts that necessarily hold when the boolean `local` has the value `want`:
    returns a list of ('call', Call, bool)  -- that call returned that value --,  ('at', block) -- control passed that block --
    and ('place', place, bool) -- the boolean place read at that point had that value --,
    or None when the analysis does not understand how the local is computed.  Handles copies, negation, calls, and the
    multi-assignment lowering of `a && b` / `a || b` (one constant arm, one computed arm)."""
    _seen = _seen or set()
    if (local, want) in _seen or depth <= 0:
        return None
    _seen = _seen | {(local, want)}
    defs = fn.defs.get(local, [])
    if not defs:
        return None
    cands = []
    for (b, i, rv) in defs:
        if i == "term":
            cands.append((b, i, rv))
            continue
        if rv["k"] == "use" and "k" in rv["a"]:
            v = const_int(rv["a"])
            if v is not None and bool(v) != want:
                continue            # this assignment cannot be the one that made local == want
        cands.append((b, i, rv))
    if len(cands) != 1:
        return None if len(cands) > 1 else []
    b, i, rv = cands[0]
    out = [("at", b)] if len(defs) > 1 else []
    if i == "term":
        c = fn.call_at(b)
        if c is None:
            return None
        return out + [("call", c, want)]
    k = rv["k"]
    if k == "use":
        if "k" in rv["a"]:
            return out
        p = op_place(rv["a"])
        if len(p) != 1:
            return out + [("place", tuple(p), want)]      # a boolean field / dereference read here
        r = truth_implies(fn, p[0], want, depth - 1, _seen)
        return None if r is None else out + r
    if k == "unop" and rv["op"] == "Not":
        p = op_place(rv["a"]) if "k" not in rv["a"] else None
        if not p or len(p) != 1:
            return None
        r = truth_implies(fn, p[0], not want, depth - 1, _seen)
        return None if r is None else out + r
    return None


def edge_implies_call(fn, sb, tb, call, want=True):
    """taking the CFG edge sb->tb implies that `call` (a bool-returning call) returned `want`:
    either an edge on the call's own result dominates, or sb switches on a boolean whose value on that edge implies it"""
    for (s, tt, ft) in bool_branch(fn, call.dest[0]) if len(call.dest) == 1 else []:
        if (want and (s, tt) == (sb, tb)) or ((not want) and (s, ft) == (sb, tb)):
            return True
        if edge_dominates(fn, s, tt if want else ft, sb):
            return True
    t = fn.term(sb)
    if not t or t["k"] != "switch":
        return False
    l = op_local(t["d"])
    if l is None:
        return False
    zero = [x for v, x in t["ts"] if v == 0]
    if not zero:
        return False
    val = (tb != zero[0])
    facts = truth_implies(fn, l, val)
    if facts is None:
        return False
    for f_ in facts:
        if f_[0] == "call" and f_[1] is call and f_[2] == want:
            return True
    for f_ in facts:
        if f_[0] == "at":
            for (s, tt, ft) in bool_branch(fn, call.dest[0]) if len(call.dest) == 1 else []:
                if edge_dominates(fn, s, tt if want else ft, f_[1]):
                    return True
    return False


def result_blocks(fn, variant="Ok"):
    """blocks in which the function's own Result/Option return value is built as `variant(..)`: an aggregate of that variant
    assigned to the return place, or to a temporary that flows into it (through moves, `?` re-wrapping, an inlined helper's landing)"""
    cached = getattr(fn, "_result_blocks", None)
    if cached is None:
        cached = fn._result_blocks = {}
    if variant in cached:
        return cached[variant]
    out = []
    for b in fn.reachable:
        for st in fn.stmts(b):
            if st["k"] != "assign" or st["rv"]["k"] != "agg" or st["rv"].get("variant") != variant:
                continue
            if not str(st["rv"].get("def", "")).endswith(("result::Result", "option::Option")):
                continue
            l = st["lhs"][0]
            if l == 0 and len(st["lhs"]) == 1:
                out.append(b)
                continue
            if len(st["lhs"]) == 1:
                tracked, _ = flow_forward(fn, [l], [])
                if 0 in tracked:
                    out.append(b)
    cached[variant] = out
    return out


def flag_edges(fn, guard_edges):
    """true edges of found-flags: a bool local assigned only constants, `true` only in blocks dominated by one of guard_edges
    [(switch_bb, target_bb)].  On the true edge of a test of such a flag some guard edge was passed earlier.
    Returns [(switch_bb, true_target)]."""
    out = []
    for l in range(len(fn.locals)):
        ds = fn.defs.get(l, [])
        if len(ds) < 2 or fn.local_ty(l)["k"] != "bool":
            continue
        vals = []
        for (b, i, rv) in ds:
            v = const_int(rv["a"]) if (i != "term" and rv["k"] == "use") else None
            vals.append((b, v))
        if any(v is None for b, v in vals):
            continue
        trues = [b for b, v in vals if v == 1]
        if not trues or not all(any(edge_dominates(fn, sb, tb, b) for (sb, tb) in guard_edges) for b in trues):
            continue
        for (sb, tt, ft) in bool_branch(fn, l, as_variable=True):
            out.append((sb, tt))
    return out
