"""Small dataflow helpers over the MIR model (value flow, branches, awaits)."""
import re
from collections import deque

from .mir import op_place, op_local, op_base, op_const, const_int, rv_operands

AWAIT_PLUMBING = [
    r"core::future::into_future::IntoFuture::into_future$",
    r"core::pin::Pin::<Ptr>::new_unchecked$",
    r"core::future::future::Future::poll$",
    r"core::pin::Pin::<Ptr>::as_mut$",
]
RESULT_ADAPTORS = [
    r"easy_error::ResultExt::context$",
    r"easy_error::ResultExt::with_context$",
    r"core::result::Result::<T, E>::map_err$",
    r"core::ops::try_trait::Try::branch$",
]


def _matches(pats, name):
    for p in pats:
        if re.search(p, name):
            return True
    return False


def flow_forward(fn, seeds, pass_calls=(), field_sensitive=False):
    """Forward value flow from the locals in `seeds`.

    Returns (tracked: dict local -> origin description, consumers: list of
    (kind, bb, info, local)).  Flow-insensitive over MIR temporaries (which are
    single-assignment in practice); pass_calls are regexes of callee def paths
    through which the value passes from any argument to the destination."""
    tracked = {s: "seed" for s in seeds}
    consumers = []
    changed = True
    seen_cons = set()

    def cons(kind, b, info, l):
        k = (kind, b, id(info) if not isinstance(info, (str, int)) else info, l)
        if k in seen_cons:
            return
        seen_cons.add(k)
        consumers.append((kind, b, info, l))

    while changed:
        changed = False
        for b in fn.reachable:
            for st in fn.stmts(b):
                if st["k"] != "assign":
                    continue
                rv = st["rv"]
                lhs = st["lhs"]
                k = rv["k"]
                src = None
                if k in ("use", "cast", "repeat"):
                    src = op_base(rv["a"])
                elif k in ("ref", "rawptr"):
                    src = rv["p"][0]
                elif k == "agg":
                    for o in rv["ops"]:
                        if op_base(o) in tracked:
                            src = op_base(o)
                            break
                elif k == "discr":
                    if rv["p"][0] in tracked:
                        cons("discr", b, rv, rv["p"][0])
                    continue
                elif k in ("binop", "unop"):
                    for o in rv_operands(rv):
                        if op_base(o) in tracked:
                            cons(k, b, rv, op_base(o))
                    continue
                if src is not None and src in tracked:
                    if len(lhs) == 1:
                        if lhs[0] not in tracked:
                            tracked[lhs[0]] = ("from", src)
                            changed = True
                        if lhs[0] == 0:
                            cons("return", b, rv, src)
                    else:
                        cons("store", b, st, src)
            t = fn.term(b)
            if not t:
                continue
            if t["k"] == "call":
                c = fn.call_at(b)
                hit = [op_base(a) for a in c.args if op_base(a) in tracked]
                if hit:
                    if _matches(pass_calls, c.name) or (c.path and _matches(pass_calls, c.path)):
                        d = c.dest
                        if len(d) == 1 and d[0] not in tracked:
                            tracked[d[0]] = ("call", c.name)
                            changed = True
                    else:
                        cons("call", b, c, hit[0])
            elif t["k"] == "switch":
                l = op_base(t["d"])
                if l in tracked:
                    cons("switch", b, t, l)
            elif t["k"] == "assert":
                for o in [t["cond"]] + t.get("ops", []):
                    if op_base(o) in tracked:
                        cons("assert", b, t, op_base(o))
            elif t["k"] == "yield":
                l = op_base(t["v"])
                if l in tracked:
                    cons("yield", b, t, l)
    return tracked, consumers


def awaited(fn, call):
    """For `call(..).await`: returns dict(poll=<Call of Future::poll>, result=<local
    holding the Ready value> or None, yield_bb=...), or None if the call's
    value is not awaited in this body."""
    if len(call.dest) != 1:
        return None
    tracked, cons = flow_forward(fn, [call.dest[0]], AWAIT_PLUMBING[:2] + AWAIT_PLUMBING[3:])
    for kind, b, info, l in cons:
        if kind == "call" and re.search(AWAIT_PLUMBING[2], info.path or ""):
            poll = info
            res = None
            pd = poll.dest[0]
            # result: a statement  X = move ((pd as Ready).0)
            for bb in fn.reachable:
                for st in fn.stmts(bb):
                    if st["k"] == "assign" and st["rv"]["k"] == "use":
                        p = op_place(st["rv"]["a"])
                        if p and p[0] == pd and len(p) >= 3 and p[1] == "d:Ready" and len(st["lhs"]) == 1:
                            res = st["lhs"][0]
            ybb = None
            for y in fn.yields():
                # the yield that loops back to this poll
                if poll.bb in fn.reach_from([fn.succ[y][0]], avoid=[y]) and y in fn.reach_from([poll.target] if poll.target is not None else []):
                    ybb = y
                    break
            return {"poll": poll, "result": res, "yield_bb": ybb, "tracked": tracked}
    return None


def poll_yield_map(fn):
    """yield block -> list of Future::poll calls in the same await loop"""
    out = {}
    polls = [c for c in fn.calls if re.search(AWAIT_PLUMBING[2], c.path or "")]
    for y in fn.yields():
        nxt = fn.succ[y][0] if fn.succ[y] else None
        if nxt is None:
            continue
        ps = []
        # the poll whose Pending edge leads to this yield and which is re-reached after it
        back = fn.reach_from([nxt], avoid=[y])
        for p in polls:
            if p.target is None:
                continue
            if p.bb in back and y in fn.reach_from([p.target], avoid=[p.bb]):
                ps.append(p)
        # keep the closest: the poll from which y is reachable without passing another poll
        close = []
        for p in ps:
            others = [q.bb for q in polls if q is not p]
            if y in fn.reach_from([p.target], avoid=others):
                close.append(p)
        out[y] = close or ps
    return out


# --------------------------------------------------------------------------- branches

def bool_branch(fn, local):
    """Find switchInt terminators that test the boolean held in `local`
    (directly or through Not / copies).  Returns list of (bb, true_target, false_target)."""
    out = []
    # forward: local -> copies / Not
    if len(fn.defs.get(local, ())) > 1:
        return out   # assigned on several paths (`x = a || f()`): a test of the local is not a test of this one value
    pol = {local: True}
    changed = True
    while changed:
        changed = False
        for b in fn.reachable:
            for st in fn.stmts(b):
                if st["k"] != "assign" or len(st["lhs"]) != 1:
                    continue
                rv = st["rv"]
                l = st["lhs"][0]
                if l in pol:
                    continue
                if len(fn.defs.get(l, ())) != 1:
                    continue   # a local assigned on several paths (`a || b`) is not an alias of one of its sources
                if rv["k"] == "use" and op_local(rv["a"]) in pol:
                    pol[l] = pol[op_local(rv["a"])]
                    changed = True
                elif rv["k"] == "unop" and rv["op"] == "Not" and op_local(rv["a"]) in pol:
                    pol[l] = not pol[op_local(rv["a"])]
                    changed = True
    for b in fn.reachable:
        t = fn.term(b)
        if t and t["k"] == "switch":
            l = op_local(t["d"])
            if l in pol:
                zero = None
                for v, tb in t["ts"]:
                    if v == 0:
                        zero = tb
                other = t["o"]
                if zero is None:
                    continue
                if pol[l]:
                    out.append((b, other, zero))
                else:
                    out.append((b, zero, other))
    return out


def discr_branch(fn, local):
    """switches on the discriminant of the enum in `local` (followed through
    moves/copies/refs).  Returns list of (bb, {variant_index: target}, otherwise)."""
    alias = {local}
    changed = True
    while changed:
        changed = False
        for b in fn.reachable:
            for st in fn.stmts(b):
                if st["k"] != "assign" or len(st["lhs"]) != 1:
                    continue
                rv = st["rv"]
                l = st["lhs"][0]
                if l in alias:
                    continue
                if rv["k"] == "use":
                    p = op_place(rv["a"])
                    if p and p[0] in alias and all(x == "*" for x in p[1:]):
                        alias.add(l)
                        changed = True
                elif rv["k"] == "ref":
                    p = rv["p"]
                    if p[0] in alias and all(x == "*" for x in p[1:]):
                        alias.add(l)
                        changed = True
    out = []
    dl = {}
    for b in fn.reachable:
        for st in fn.stmts(b):
            if st["k"] == "assign" and st["rv"]["k"] == "discr" and len(st["lhs"]) == 1:
                p = st["rv"]["p"]
                if p[0] in alias and all(x == "*" for x in p[1:]):
                    dl[st["lhs"][0]] = b
    for b in fn.reachable:
        t = fn.term(b)
        if t and t["k"] == "switch":
            l = op_local(t["d"])
            if l in dl:
                out.append((b, {v: tb for v, tb in t["ts"]}, t["o"]))
    return out


def edge_dominates(fn, a, b, c):
    """every path entry -> c passes the edge a->b"""
    if c not in fn.reachable:
        return False
    return c not in fn.reach_from([0], avoid_edges={(a, b)})


def must_pass(fn, start_blocks, through, to_blocks):
    """every path from any of start_blocks to any of to_blocks passes a block in `through`"""
    r = fn.reach_from(start_blocks, avoid=through)
    return not (set(to_blocks) & r)


def blocks_between(fn, start, stop_set):
    return fn.reach_from([start], avoid=stop_set)


def call_result_branch(fn, call):
    """for a call returning bool: (true_target, false_target) lists"""
    if len(call.dest) != 1:
        return []
    return bool_branch(fn, call.dest[0])


def const_args_str(call):
    from .mir import const_str
    return [const_str(a) for a in call.args]


def uses_of(fn, local):
    """all (bb, kind) where `local` is read (not StorageDead/Drop)"""
    out = []
    for b in fn.reachable:
        for st in fn.stmts(b):
            if st["k"] != "assign":
                continue
            rv = st["rv"]
            k = rv["k"]
            hit = False
            if k in ("ref", "rawptr", "discr"):
                hit = rv["p"][0] == local
            else:
                for o in rv_operands(rv):
                    if op_base(o) == local:
                        hit = True
            # index projections
            for x in st["lhs"][1:]:
                if x == "i:%d" % local:
                    hit = True
            if hit:
                out.append((b, k))
        t = fn.term(b)
        if not t:
            continue
        if t["k"] == "call":
            for a in t["args"]:
                if op_base(a) == local:
                    out.append((b, "call"))
            ind = t["f"].get("indirect")
            if ind and op_base(ind) == local:
                out.append((b, "callee"))
        elif t["k"] == "switch" and op_base(t["d"]) == local:
            out.append((b, "switch"))
        elif t["k"] == "assert":
            for o in [t["cond"]] + t.get("ops", []):
                if op_base(o) == local:
                    out.append((b, "assert"))
        elif t["k"] == "yield" and op_base(t["v"]) == local:
            out.append((b, "yield"))
    return out
