"""Wire layouts: the sequences of socket reads / writes a codec function performs on its successful paths.

For an encoder or decoder of a fixed binary format the *shape* of what goes over the socket -- how many fields, of which width, in
which order, on which alternative -- is visible in the code: every successful path through the function is a sequence of
`write_u8 / write_u16 / write_all(..)` (or `read_*`) calls.  `layouts(prog, fn)` enumerates those sequences path-sensitively
(the variant of an Option/Result that was built on the path, also inside a tuple, decides later `if let` / `match` tests of it) and
`compatible(writer_layouts, reader_layouts)` compares an encoder with the decoder of the same message.  Nothing is executed.

Tokens:  1, 2, 4, 8, 16 ...   a field of that many bytes (write_u16 == read_u16 == a [u8; 2])
         "cstr"               bytes followed by a 0 terminator  (write_all(x); write_u8(0)   /  take(..).read_until(0, ..))
         "lstr"               one length byte followed by that many bytes (read_u8; read_exact(vec![0; len]))
         "var"                a run of bytes whose length is not fixed by its type
         "call:<name>"        an opaque sub-protocol delegated to a trait object (the same marker on both sides)
         "*"                  socket operations inside a loop: the number of fields is not bounded by the code
"""
import re

from .mir import op_base, op_place, const_int
from .flow import result_blocks

W = re.compile(r"AsyncWriteExt::write_(u8|i8|u16|i16|u32|i32|u64|i64|u128|all|all_buf|buf)$")
R = re.compile(r"AsyncReadExt::read_(u8|i8|u16|i16|u32|i32|u64|i64|u128|exact|buf|to_end|to_string)$|AsyncBufReadExt::read_(until|line)$")
WIDTH = {"u8": 1, "i8": 1, "u16": 2, "i16": 2, "u32": 4, "i32": 4, "u64": 8, "i64": 8, "u128": 16}
NEUTRAL = re.compile(r"AsyncWriteExt::flush$|AsyncReadExt::take$")
_VIDX = {"None": 0, "Some": 1, "Ok": 0, "Err": 1}


class Unrecognised(Exception):
    pass


def _array_len(tys):
    m = re.search(r"\[u8; (\d+)\]", tys or "")
    return int(m.group(1)) if m else None


def _buf_width(fn, a):
    """width of the buffer handed to write_all / read_exact when its type fixes it"""
    l = op_base(a)
    if l is None:
        return "var"
    n = _array_len(fn.local_ty_s(l))
    if n is not None:
        return n
    for k, info in fn.trace(l):
        if k in ("ref", "place"):
            n = _array_len(fn.local_ty_s(info[0])) if len(info) == 1 or info[1:] == ["*"] else None
            if n is not None:
                return n
        if k == "call":
            break
    return "var"


BUF_NEW = re.compile(r"vec::Vec::<T>::(new|with_capacity)$|bytes_mut::BytesMut::(new|with_capacity)$")
BUF_FROM = re.compile(r"slice::<impl \[T\]>::(into_vec|to_vec)$|boxed::box_assume_init_into_vec_unsafe$|convert::(From::from|Into::into)$|borrow::ToOwned::to_owned$|vec::Vec::<T>::from$|"
                      r"bytes_mut::BytesMut::from$")
BUF_PUT = re.compile(r"buf_mut::BufMut::put_(u8|i8|u16|i16|u32|i32|u64|i64|u128)$")
BUF_APPEND = re.compile(r"vec::Vec::<T, A>::(push|extend_from_slice|insert)$|iter::traits::collect::Extend::extend$|buf_mut::BufMut::(put_slice|put)$|"
                        r"bytes_mut::BytesMut::extend_from_slice$")
THROUGH = [r"ops::deref::Deref(Mut)?::deref(_mut)?$", r"Vec::<T, A>::as_(slice|mut_slice)$", r"convert::AsRef::as_ref$", r"borrow::Borrow::borrow$"]


def _root(fn, a):
    """the local a (reference) argument points into"""
    l = op_base(a)
    if l is None:
        return None
    last = (l,)
    for k, info in fn.trace(l, through_calls=THROUGH):
        if k in ("ref", "place"):
            last = (info[0],) + tuple(x for x in info[1:] if str(x).startswith("f:"))
    return last


def _arg_width(fn, a):
    """width of a byte source handed to a buffer: a [u8; N] (also boxed / referenced), one byte, or unknown"""
    l = op_base(a)
    if l is None:
        return 1 if const_int(a) is not None else "var"
    tys = fn.local_ty_s(l)
    n = _array_len(tys)
    if n is not None:
        return n
    if tys in ("u8", "i8"):
        return 1
    return _buf_width(fn, a)


def buffer_effect(fn, c):
    """(root local, 'new' | 'append' | 'prepend', tokens) when the call builds or extends a byte buffer, else None"""
    p = c.path or ""
    if BUF_NEW.search(p) and len(c.dest) == 1:
        return ((c.dest[0],), "new", ())
    if BUF_FROM.search(p) and len(c.dest) == 1 and c.args:
        dty = fn.local_ty_s(c.dest[0])
        if re.search(r"Vec<u8|BytesMut|Bytes\b", dty):
            w = _arg_width(fn, c.args[0])
            return ((c.dest[0],), "new", (w,))
        return None
    m = BUF_PUT.search(p)
    if m and c.args:
        r = _root(fn, c.args[0])
        return (r, "append", (WIDTH[m.group(1)],)) if r is not None else None
    m = BUF_APPEND.search(p)
    if m and len(c.args) >= 2:
        r = _root(fn, c.args[0])
        if r is None:
            return None
        if p.endswith("::push"):
            return (r, "append", (1,))
        if p.endswith("::insert"):
            if fn.int_of(c.args[1]) == 0:
                return (r, "prepend", (1,))
            return (r, "append", ("var",))
        return (r, "append", (_arg_width(fn, c.args[1]),))
    return None


def token(prog, fn, c, depth):
    """token(s) a call contributes: a list of alternatives, each a tuple of tokens; None = not a socket operation"""
    p = c.path or ""
    m = W.search(p)
    if m:
        k = m.group(1)
        if k in WIDTH:
            v = fn.int_of(c.args[1]) if len(c.args) > 1 else None
            return [((WIDTH[k], v) if (k == "u8" and v is not None) else WIDTH[k],)]
        return [(_buf_width(fn, c.args[1]) if len(c.args) > 1 else "var",)]
    m = R.search(p)
    if m:
        k = m.group(1) or m.group(2)
        if k in WIDTH:
            return [(WIDTH[k],)]
        if k == "exact":
            return [(_buf_width(fn, c.args[1]) if len(c.args) > 1 else "var",)]
        if k == "until":
            d = fn.int_of(c.args[1]) if len(c.args) > 1 else None
            return [("cstr",)] if d == 0 else [("var",)]
        return [("var",)]
    if NEUTRAL.search(p):
        return None
    lk = c.local_key()
    g = prog.fns.get(lk) if lk else None
    if g is not None and g.crate in ("redproxy_rs", "milu") and depth > 0 and g.kind in ("Fn", "AssocFn"):
        body = prog.body_of(g)
        sub = layouts(prog, body, depth - 1)
        if sub is not None and any(s for s in sub):
            return sorted(sub, key=str)
        return None
    if c.virtual or (c.trait and not c.res):
        # a sub-protocol behind a trait object (authentication): opaque, but only when it is handed the socket
        if any("IO" in fn.local_ty_s(op_base(a)) or "Stream" in fn.local_ty_s(op_base(a)) for a in c.args if op_base(a) is not None):
            return [("call:" + p.rsplit("::", 1)[-1],)]
    return None


def _norm(seq):
    """bytes + 0 terminator -> cstr;  length byte + var -> lstr (reader side spelling: read_u8 then read_exact of a computed length)"""
    out = []
    i = 0
    seq = list(seq)
    while i < len(seq):
        t = seq[i]
        nxt = seq[i + 1] if i + 1 < len(seq) else None
        if t == "var" and nxt == (1, 0):
            out.append("cstr")
            i += 2
            continue
        if isinstance(t, tuple):
            t = t[0]
        out.append(t)
        i += 1
    return tuple(out)


BUF_GET = re.compile(r"buf_impl::Buf::get_(u8|i8|u16|i16|u32|i32|u64|i64|u128)(_le|_ne)?$")
BUF_TAKE = re.compile(r"buf_impl::Buf::(copy_to_slice|advance|copy_to_bytes)$|bytes::Bytes::split_to$|bytes_mut::BytesMut::split_to$")


def buffer_token(prog, fn, c, depth):
    """tokens of an in-memory codec: what is appended to / consumed from a byte buffer"""
    p = c.path or ""
    m = BUF_PUT.search(p)
    if m:
        return [(WIDTH[m.group(1)],)]
    if BUF_APPEND.search(p) and len(c.args) >= 2 and not p.endswith("::insert"):
        if p.endswith("::push"):
            return [(1,)]
        return [(_arg_width(fn, c.args[1]),)]
    m = BUF_GET.search(p)
    if m:
        return [(WIDTH[m.group(1)],)]
    m = BUF_TAKE.search(p)
    if m and len(c.args) >= 2:
        if p.endswith("copy_to_slice"):
            return [(_arg_width(fn, c.args[1]),)]
        v = fn.int_of(c.args[1])
        return [(v if v is not None and v > 0 else "var",)]
    lk = c.local_key()
    g = prog.fns.get(lk) if lk else None
    if g is not None and g.crate in ("redproxy_rs", "milu") and depth > 0 and g.kind in ("Fn", "AssocFn"):
        sub = layouts(prog, prog.body_of(g), depth - 1, mode="buffer")
        if sub is not None and any(s for s in sub):
            return sorted(sub, key=str)
    return None


def layouts(prog, fn, depth=3, cap=400000, mode="socket"):
    """set of normalised token sequences over the paths of `fn` that end in success; None when the shape is not understood.
    mode "socket": reads/writes on a stream (buffers assembled on the way are followed);  mode "buffer": an in-memory codec, the
    tokens are what is put into / taken out of byte buffers"""
    attr = "_wire_layouts_" + mode
    cached = getattr(fn, attr, None)
    if cached is not None:
        return cached if cached != "?" else None
    okb = set(result_blocks(fn, "Ok"))
    errb = set(result_blocks(fn, "Err"))
    for c in fn.calls:
        if re.search(r"FromResidual", c.path or ""):
            errb.add(c.bb)
    results = set()
    steps = [0]
    # buffers that grow inside a loop (`for b in name { x.push(*b) }`): loop header -> roots.  Found while enumerating (a block is
    # re-entered with a longer buffer than at its first visit) and applied in the next round: at the header the buffer gets one "var"
    # for whatever the iterations append, and appends to it inside the loop body are not counted again.
    loop_growth = {}
    found_growth = {}
    loop_body = {}

    def body_of_loop(h):
        if h not in loop_body:
            fwd = fn.reach_from(fn.succ[h])
            loop_body[h] = set(b_ for b_ in fwd if h in fn.reach_from(fn.succ[b_])) | {h}
        return loop_body[h]

    def names_of(l):
        s = fn.local_ty_s(l)
        if s.startswith("core::option::Option<"):
            return ("None", "Some")
        if s.startswith("core::result::Result<"):
            return ("Ok", "Err")
        return None

    def run(b, env, dsc, seqs, onpath):
        # seqs: list of alternative token prefixes (helpers with several layouts fork the prefix)
        while True:
            steps[0] += 1
            if steps[0] > cap:
                raise Unrecognised("too many paths")
            if b in errb and b not in okb:
                return
            if b in onpath:
                first = onpath[b][1]
                for r_, v_ in env.items():
                    if isinstance(v_, tuple) and isinstance(first.get(r_), tuple) and len(v_) > len(first[r_]) and r_ not in loop_growth.get(b, ()):
                        found_growth.setdefault(b, set()).add(r_)
                if onpath[b][0] != tuple(len(s) for s in seqs):
                    for s in seqs:
                        results.add(_norm(s) + ("*",))
                return
            onpath = dict(onpath)
            env = dict(env)
            dsc = dict(dsc)
            for r_ in loop_growth.get(b, ()):
                if isinstance(env.get(r_), tuple):
                    env[r_] = env[r_] + ("var",)
            onpath[b] = (tuple(len(s) for s in seqs), dict((r_, v_) for r_, v_ in env.items() if isinstance(v_, tuple)))
            for st in fn.stmts(b):
                if st["k"] != "assign":
                    continue
                lhs, rv = st["lhs"], st["rv"]
                if len(lhs) != 1:
                    if lhs:
                        for k in [k for k in env if k[0] == lhs[0]]:
                            env.pop(k)
                    continue
                L = lhs[0]
                for k in [k for k in env if k[0] == L]:
                    env.pop(k)
                dsc.pop(L, None)
                if rv["k"] == "agg" and rv.get("ak") == "adt" and str(rv.get("def", "")).endswith(("option::Option", "result::Result")) and rv.get("variant") in _VIDX:
                    env[(L,)] = rv["variant"]
                elif rv["k"] == "agg" and (rv.get("ak") == "tuple" or (rv.get("ak") == "adt" and rv.get("fields") and len(rv["fields"]) == len(rv["ops"]))):
                    # facts travel inside tuples and plain structs (a local `struct Addr { atyp, addr, port }` instead of a tuple)
                    for i, o in enumerate(rv["ops"]):
                        pl = op_place(o)
                        fname = "f:%d" % i if rv.get("ak") == "tuple" else "f:%s" % rv["fields"][i]
                        if pl and len(pl) == 1 and (pl[0],) in env:
                            env[(L, fname)] = env[(pl[0],)]
                elif rv["k"] == "use" and "k" not in rv["a"]:
                    pl = op_place(rv["a"])
                    if pl and len(pl) == 1:
                        for k in [k for k in env if k[0] == pl[0]]:
                            env[(L,) + k[1:]] = env[k]
                    elif pl and len(pl) == 2 and (pl[0], pl[1]) in env:
                        env[(L,)] = env[(pl[0], pl[1])]
                elif rv["k"] == "discr":
                    pl = [x for x in rv["p"] if x != "*"]
                    if len(pl) == 1:
                        dsc[L] = (pl[0],)
                    elif len(pl) == 2:
                        dsc[L] = (pl[0], pl[1])
            if b in okb:
                for s in seqs:
                    results.add(_norm(s))
                return
            t = fn.term(b)
            k = t["k"]
            if k == "return":
                for s in seqs:
                    results.add(_norm(s))
                return
            if k in ("goto", "drop", "assert", "yield"):
                if "t" not in t:
                    return
                b = t["t"]
                continue
            if k == "call":
                c = fn.call_at(b)
                if c.target is None:
                    return
                if mode == "buffer":
                    alts = buffer_token(prog, fn, c, depth) if not c.term.get("inlined") else None
                    be = None
                else:
                    alts = token(prog, fn, c, depth) if not c.term.get("inlined") else None
                    be = buffer_effect(fn, c) if not c.term.get("inlined") else None
                if be is not None and be[0] is not None and be[1] != "new" and any(
                        be[0] in rs and b in body_of_loop(h) for h, rs in loop_growth.items()):
                    be = None                      # counted once at the loop header
                if be is not None and be[0] is not None:
                    r_, how, toks = be
                    cur = env.get(r_)
                    if how == "new":
                        newv = tuple(toks)
                    elif not isinstance(cur, tuple):
                        newv = ("var",) + tuple(toks) if how == "append" else tuple(toks) + ("var",)
                    else:
                        newv = cur + tuple(toks) if how == "append" else tuple(toks) + cur
                    if how != "new":
                        env[r_] = newv
                    pending_buf = (r_, newv) if how == "new" else None
                else:
                    pending_buf = None
                if alts == [("var",)] and W.search(c.path or "") and len(c.args) > 1:
                    # write_all(&buf): a buffer assembled on this path goes out field by field
                    r_ = _root(fn, c.args[1])
                    if r_ is not None and isinstance(env.get(r_), tuple):
                        alts = [tuple(env[r_])]
                if alts:
                    seqs = [s + a for s in seqs for a in alts]
                    if len(seqs) > 64:
                        raise Unrecognised("too many alternatives")
                for d in c.dest[:1]:
                    for kk in [kk for kk in env if kk[0] == d]:
                        env.pop(kk)
                if pending_buf is not None:
                    env[pending_buf[0]] = pending_buf[1]
                b = c.target
                continue
            if k == "switch":
                d = op_base(t["d"])
                key = dsc.get(d)
                tg = dict((v, x) for v, x in t["ts"])
                if key is not None and isinstance(env.get(key), str):
                    idx = _VIDX[env[key]]
                    nb = tg.get(idx)
                    if nb is None and len(tg) == 1 and (1 - idx) in tg:
                        nb = t["o"]
                    if nb is not None:
                        b = nb
                        continue
                succs = []
                for x in [x for v, x in t["ts"]] + [t["o"]]:
                    if x not in succs:
                        succs.append(x)
                for x in succs[1:]:
                    run(x, env, dsc, list(seqs), onpath)
                b = succs[0]
                continue
            return

    try:
        for _round in range(4):
            results.clear()
            found_growth.clear()
            steps[0] = 0
            run(0, {}, {}, [()], {})
            if not found_growth:
                break
            for h, rs in found_growth.items():
                loop_growth.setdefault(h, set()).update(rs)
    except Unrecognised:
        setattr(fn, attr, "?")
        return None
    except RecursionError:
        setattr(fn, attr, "?")
        return None
    setattr(fn, attr, results)
    return results


def _match(w, r):
    """a writer sequence against a reader sequence: widths must agree; the writer's "var" (a field assembled in a buffer) may stand
    for one fixed-width or length-prefixed field of the reader"""
    if len(w) != len(r):
        # a writer that assembles `len byte + bytes` in one buffer: var == lstr
        return False
    for a, b in zip(w, r):
        if a == b:
            continue
        if a == "var" and (isinstance(b, int) or b in ("lstr", "var")):
            continue
        if b == "var" and (isinstance(a, int) or a in ("lstr",)):
            continue
        return False
    return True


def fold_lstr(seqs):
    """reader spelling of a length-prefixed field: 1 followed by var -> lstr"""
    out = set()
    for s in seqs:
        o = []
        i = 0
        s = list(s)
        while i < len(s):
            if s[i] == 1 and i + 1 < len(s) and s[i + 1] == "var":
                o.append("lstr")
                i += 2
            else:
                o.append(s[i])
                i += 1
        out.add(tuple(o))
    return out


def merge_fixed(seqs):
    """adjacent fixed-width fields are compared by their total size (write_u16 == two write_u8 == a [u8; 2])"""
    out = set()
    for s in seqs:
        o = []
        for t in s:
            if isinstance(t, int) and o and isinstance(o[-1], int):
                o[-1] += t
            else:
                o.append(t)
        out.add(tuple(o))
    return out


def compatible(wl, rl, reader_prefix=()):
    """every layout the writer can produce is one the reader expects, and every layout the reader expects can be produced
    (reader_prefix: tokens the reader's caller consumed first, e.g. the version byte)"""
    rl = set(tuple(reader_prefix) + r for r in rl)
    missing = [w for w in wl if not any(_match(w, r) for r in rl)]
    unused = [r for r in rl if not any(_match(w, r) for w in wl)]
    return missing, unused
