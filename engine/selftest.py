"""Both-ways self-test: apply stored seeded defects to a scratch copy of the *current* /repo,
re-run the same static check on the copy (nothing is executed), and require the report to name
the seeded rule.  The copy and its facts are removed immediately."""
import json
import os
import re
import shutil
import subprocess
import sys
import tempfile
import time

VERIF = os.path.dirname(os.path.dirname(os.path.abspath(__file__)))
SEEDS = os.path.join(VERIF, "selftest", "seeds.json")


def load_seeds():
    with open(SEEDS) as fh:
        return json.load(fh)


def apply_edits(root, edits):
    for e in edits:
        p = os.path.join(root, e["file"])
        with open(p) as fh:
            s = fh.read()
        if e["old"] not in s:
            return False, "pattern not found in %s" % e["file"]
        s = s.replace(e["old"], e["new"], e.get("count", 1))
        with open(p, "w") as fh:
            fh.write(s)
    return True, ""


def run_seed(prop, seed, repo="/repo"):
    scratch = tempfile.mkdtemp(prefix="rpx-scratch-", dir="/var/tmp")
    evid = tempfile.mkdtemp(prefix="rpx-evid-", dir="/var/tmp")
    t0 = time.time()
    try:
        subprocess.run(["rsync", "-a", "--exclude", "target", "--exclude", ".git", repo + "/", scratch + "/"], check=True)
        if "patch" in seed:
            r0 = subprocess.run(["patch", "-p1", "-s", "-i", os.path.join(VERIF, seed["patch"])], cwd=scratch, capture_output=True, text=True)
            ok, why = (r0.returncode == 0), (r0.stdout + r0.stderr)[-300:]
        else:
            ok, why = apply_edits(scratch, seed["edits"])
        if not ok:
            return {"seed": seed["name"], "status": "skipped", "why": why}
        env = dict(os.environ, RPX_REPO=scratch, RPX_EVIDENCE_DIR=evid, RPX_FACTS_EPHEMERAL="1")
        r = subprocess.run([sys.executable, os.path.join(VERIF, "check.py"), prop, "--tier", "quick", "--no-selftest"],
                           env=env, capture_output=True, text=True, cwd=VERIF)
        rules = re.findall(r"^\s+rule=(\S+) at", r.stdout, re.M)
        keys = re.findall(r"^\s+key=(.*)$", r.stdout, re.M)
        hit = [k for k in keys if re.search(seed["expect"], k)]
        build_fail = any(k.split("|")[1] == "build" for k in keys if "|" in k)
        status = "detected" if hit and not build_fail else ("build-failed" if build_fail else "MISSED")
        return {"seed": seed["name"], "status": status, "expect": seed["expect"], "reported": keys[:6],
                "wall_s": round(time.time() - t0, 1), "what": seed.get("what", "")}
    finally:
        shutil.rmtree(scratch, ignore_errors=True)
        shutil.rmtree(evid, ignore_errors=True)
        # drop the scratch copy's fact sets
        fd = os.path.join(VERIF, ".cache", "facts")
        # (facts are keyed by content; pruning keeps the cache small)


def benign_seeds(prop):
    """behaviour-preserving refactorings kept under benign/<prop>/ (written by sub-agents that saw only the property text):
    the property's check must stay silent on each of them"""
    d = os.path.join(VERIF, "benign", prop)
    out = []
    if os.path.isdir(d):
        for n in sorted(os.listdir(d)):
            if n.endswith(".diff"):
                out.append({"name": "benign-" + n[:-5], "what": "behaviour-preserving refactoring benign/%s/%s" % (prop, n),
                            "patch": os.path.join("benign", prop, n), "expect": "^$", "silent": True})
    return out


def finish_silent(res):
    """a benign seed is fine when the check reports nothing on it"""
    if res["status"] in ("skipped", "build-failed"):
        return res
    res["status"] = "silent" if not res.get("reported") else "FALSE-ALARM"
    return res


def run_for(chk, prop, only=None):
    for s in benign_seeds(prop):
        if only and s["name"] != only:
            continue
        res = finish_silent(run_seed(prop, s))
        chk.selftests.append(res)
        if res["status"] == "FALSE-ALARM":
            sys.stderr.write("SELFTEST-FALSE-ALARM property=%s seed=%s reported %s\n" % (prop, s["name"], res.get("reported")))
    seeds = load_seeds().get(prop, [])
    for s in seeds:
        if only and s["name"] != only:
            continue
        res = run_seed(prop, s)
        chk.selftests.append(res)
        if res["status"] == "MISSED":
            sys.stderr.write("SELFTEST-MISS property=%s seed=%s expected key ~ %s, reported %s\n" % (prop, s["name"], s["expect"], res.get("reported")))


if __name__ == "__main__":
    prop = sys.argv[1]
    only = sys.argv[2] if len(sys.argv) > 2 else None
    seeds = load_seeds().get(prop, [])
    bad = 0
    for s in benign_seeds(prop):
        if only and s["name"] != only:
            continue
        res = finish_silent(run_seed(prop, s))
        print(json.dumps(res)[:600])
        if res["status"] != "silent":
            bad += 1
    for s in seeds:
        if only and s["name"] != only:
            continue
        res = run_seed(prop, s)
        print(json.dumps(res)[:600])
        if res["status"] != "detected":
            bad += 1
    sys.exit(1 if bad else 0)
