#!/bin/bash
# Build the static-analysis engine from files on disk only (offline) and warm the
# dependency metadata cache so that each check only re-analyses the two workspace crates.
set -e
cd "$(dirname "$0")"
export CARGO_NET_OFFLINE=true
(cd engine/rpx-driver && cargo build --release --offline)
python3 engine/facts.py default >/dev/null
echo "setup ok"
