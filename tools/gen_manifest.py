#!/usr/bin/env python3
"""Regenerate /verif/MANIFEST.json from the table below (keeps it schema-valid)."""
import json, os, subprocess
V = os.path.dirname(os.path.dirname(os.path.abspath(__file__)))

CLAIMS = {
 "C05": ("MIR panic-edge enumeration with dominance/byte-budget/constant-range discharges, select! branch analysis, reasoned table with re-checked anchors; unbounded-read and recursion rules",
         "Every panic edge (explicit, unwrap/expect, MIR Assert, panicking library API) in code reachable from any spawned task is discharged by a re-derived guard or an anchored table entry, else reported; unbounded line reads and recursion cycles are reported. Structural necessary condition of crash-freedom, not a proof about dependencies.",
         "Trusts rustc MIR, the curated panicking-API table and dependency contracts (tokio read returns n <= buf.len(), kernel recvmsg cmsg presence).", "3/C05"),
 # id: (technique, level text, level note, design_ref)
 "C09": ("PEG extraction from MIR + table comparison with readme (ordered-choice shadowing, ladder, fold direction, constructor totality, blank coverage)",
         "Structural necessary conditions of the documented grammar, decided on the grammar extracted from the type-checked parser: level sets equal the readme table, no prefix-shadowed alternative, left folds, total/live constructor tables, blank skipper before every token. Not a proof of tree equality for all inputs.",
         "Trusts nom's documented ordered-choice semantics and rustc's MIR; the readme table is taken as the documentation.", "3/C09"),
}
NA = {}
ALL = ["C%02d" % i for i in range(1, 20)]

def main():
    checks = []
    for pid in ALL:
        if pid not in CLAIMS:
            continue
        tech, text, note, ref = CLAIMS[pid]
        checks.append({
            "property_id": pid,
            "quick_cmd": "python3 check.py %s --tier quick" % pid,
            "thorough_cmd": "python3 check.py %s --tier thorough" % pid,
            "evidence_file": "/verif/evidence/%s.json" % pid,
            "replay_cmd_template": "python3 check.py %s --tier quick  # violations are listed in {path}" % pid,
            "engine": "rpx",
            "level_claimed": {"category": "other", "text": text, "design_ref": ref},
            "level_note": note,
            "technique": "static analysis: " + tech,
        })
    na = []
    for pid in ALL:
        if pid not in CLAIMS:
            na.append({"property_id": pid, "reason": NA.get(pid, "check not built yet in this round (static rules designed in DESIGN.md section 3; will be claimed once the rule is armed)")})
    commits = subprocess.run(["git", "-C", "/repo", "log", "--format=%h %s"], capture_output=True, text=True).stdout.splitlines()
    fix_commits = [c.split()[0] for c in commits if c.split(" ", 1)[1].startswith("fix:")]
    m = {
        "version": 1,
        "setup_cmd": "bash setup.sh",
        "hooks": {
            "guard": "mengjiangproject_redproxy_rs_verif",
            "enable": "none needed: checks are static (rustc_private driver over `cargo +nightly check`); no source hook exists, the cfg name is reserved and unused",
            "baseline_off_cmd": "cd /repo && cargo test --workspace --no-fail-fast --offline",
            "source_commits": fix_commits,
            "add_only": True,
        },
        "engines": [{"name": "rpx", "path": "/verif/engine", "serves_properties": sorted(CLAIMS),
                     "kind_free_text": "rustc_private MIR/item fact dumper (engine/rpx-driver) + Python rule passes (engine/rules) evaluated by check.py; nothing in /repo is executed"}],
        "checks": checks,
        "notes": "All claims are level=other: structural necessary conditions decided by static analysis of the type-checked program; see DESIGN.md. source_commits lists the unguarded fix: commits in /repo (genuine defects repaired), there are no hook commits.",
        "not_applicable": na,
    }
    with open(os.path.join(V, "MANIFEST.json"), "w") as fh:
        json.dump(m, fh, indent=1)
    print("wrote MANIFEST.json: %d checks, %d not_applicable" % (len(checks), len(na)))

if __name__ == "__main__":
    main()
