#!/usr/bin/env python3
"""Regenerate /verif/MANIFEST.json from the table below (keeps it schema-valid)."""
import json, os, subprocess
V = os.path.dirname(os.path.dirname(os.path.abspath(__file__)))

CLAIMS = {
 "C01": ("MIR dataflow on write counts (W1), dominance/must-pass for flush (F1) and read-ahead hand-over (H1), relay-arm data identity (R1), statics scan (O1)",
         "Structural necessary conditions of byte-exact relaying: no discarded write count, read-ahead drained both ways before unwrap, handshake writers flush, relay writes buf[..n] of its own read, no shared byte container. Not an equality proof over all segmentations.",
         "Trusts tokio BufReader/BufWriter/write_all contracts, rustls record handling and kernel splice semantics.", "3/C01"),
 "C02": ("CFG dominance + who-may-call over the call graph; find_map chain and closure shape; attribute projection table; argument dataflow of cidr_match",
         "First-match selection under one guard, connect dominated by both not-None edges and the feature gate with erroring deny edges, only process_request may connect/relay, evaluation error = no match, attribute table and cidr argument order. Necessary conditions, not evaluator correctness.",
         "Trusts cidr::AnyIpCidr::contains and the milu evaluator's value semantics (C08 covers soundness only).", "3/C02"),
 "C03": ("dominating range guards on narrowing length casts (L1), validator dominance (V1), encoder/decoder tag-table agreement (T-addr), refusal edges, who-may-call set_target",
         "Every narrowing length cast in an encoder is range-guarded or a reasoned constant case, process_request refuses un-encodable hosts before any connector, tag tables agree, IPv6 over SOCKS4 errors, only listeners set the target. Not value-level round-trip equality.",
         "Trusts UDP payload bound for u16 body length; one recorded known finding (per-datagram 254/255-byte host in RPFM TLV).", "3/C03"),
 "C04": ("sibling agreement of sink variants (write in loop => shutdown after loop), arm parity, dominance of the Ok return by both completion slots, escape-API who-may-call, Ok/Err edge must-pass in process_request",
         "Each sink written in the relay loop is shut down after it, all arms count what they write, copy_bidi needs both halves, no fd escape API, finished/error recorded. Not FIN/RST timing.",
         "Trusts tokio shutdown/AsyncFd and that dropping a socket closes it.", "3/C04"),
 "C05": ("MIR panic-edge enumeration with dominance/byte-budget/constant-range discharges, select! branch analysis, reasoned table with re-checked anchors; unbounded-read and recursion rules",
         "Every panic edge (explicit, unwrap/expect, MIR Assert, panicking library API) in code reachable from any spawned task is discharged by a re-derived guard or an anchored table entry, else reported; unbounded line reads and peer-driven recursion are reported. Structural necessary condition of crash-freedom, not a proof about dependencies.",
         "Trusts rustc MIR, the curated panicking-API table and dependency contracts (tokio read returns n <= buf.len(), kernel recvmsg cmsg presence).", "3/C05"),
 "C06": ("dominance of on_connect by connect's Ok edge, success-constructor who-may-construct, must-pass on_error on failure edges, callback guard dominance (never both), F1/CL1 dataflow, SOCKS4 code tables",
         "Success only after connect, every failure path replies once, no reply after success, complete replies (flush, Content-Length = body), writer/reader verdict tables agree, HTTP upstream 200 required. Not the client's view of timing.",
         "Trusts BufWriter flush semantics and upstream protocol conformance.", "3/C06"),
 "C07": ("dominance of enqueue by the auth-check true edge, select_method/check edge analysis, cache key type + dataflow + expiry task shape, TLS ServerConfig builder who-may-call, TLS-accept stream choice, insecure-flag dominance",
         "Enqueue only after AuthData::check on the presented credentials, NONE only when not required, cache keyed by the pair with expiry, every server config uses the configured client verifier, TLS stream used when TLS configured, verification disabled only under `insecure`. Not rustls' validation itself.",
         "Trusts rustls verifiers and the external auth command.", "3/C07"),
 "C08": ("table agreement of Accessible type_of vs get (T-acc), declared vs converted parameter types of builtins (T-sig), rule P over parser/checker/evaluator with arity and slice-length discharges and anchored table, load-time = run-time entry points",
         "The checker and the evaluator agree on attribute and builtin parameter types, every panic edge in the rule language is discharged (no unchecked integer arithmetic, arity and index guards), and what is checked at load is what is evaluated. Not a proof of full type soundness.",
         "Trusts the regex crate and rustc; parser-shape invariants are table entries tied to anchors.", "3/C08"),
 "C09": ("PEG extraction from MIR + table comparison with readme (ordered-choice shadowing, ladder, fold direction, constructor totality, blank coverage)",
         "Structural necessary conditions of the documented grammar, decided on the grammar extracted from the type-checked parser: level sets equal the readme table, no prefix-shadowed alternative, left folds, total/live constructor tables, blank skipper before every token. Not a proof of tree equality for all inputs.",
         "Trusts nom's documented ordered-choice semantics and rustc's MIR; the readme table is taken as the documentation.", "3/C09"),
}

CLAIMS.update({
 "C10": ("linear use of received frames (move into a send on every non-error path), inspected receive results incl. select! branch outputs, payload identity dataflow in every FrameWriter::write, address labelling, session-key dataflow",
         "Received datagrams are not dropped on success paths of accept functions, receive errors are inspected, writers hand the whole body to the transport, replies keep the source label, session ids/keys agree between registration, lookup and cleanup. Not delivery across the network.",
         "Trusts kernel UDP demultiplexing and mpsc channels.", "3/C10"),
 "C11": ("codec table agreement of the fragment header, rule P with header-validation anchors, wrapping counter, timer wiring",
         "Only the structural clauses: header fields/width agree between fragmenter and reassembler, peer-supplied total/seq are validated before use, the id counter wraps, expiry is driven. The permutation/duplication law is NOT decided (stated in evidence).",
         "Trusts bytes::Buf semantics.", "3/C11"),
 "C12": ("allowed-primitive rule over decoder read sites, delimiter-verification dominance, frame-completeness dominance, header arithmetic agreement, read-ahead hand-over",
         "Handshake decoders only use completion-looping reads, delimiter-terminated fields are accepted only when the delimiter was seen, framed reads return only complete frames, read_head/from_buffer agree, read-ahead is drained. Equality over all cut sets follows from the tokio contracts and is not enumerated.",
         "Trusts tokio's read_exact/read_uN/read_line/read_until contracts.", "3/C12"),
 "C13": ("def-use order of the configured timeout in main, field-to-field dataflow through create_context and session creators, guard dominance of the idle error",
         "The configured timeouts reach tunnels and UDP sessions, the idle close needs both directions idle with the same period, zero disables, transfers refresh the activity stamp. Not wall-clock accuracy.",
         "Trusts tokio interval and the system clock.", "3/C13"),
 "C14": ("guard-liveness x await classification over every coroutine (LK1/LK2), accept-loop inline-await rule (LK3), lock-order graph (LK4), handler summaries (LK5); unclassified awaits fail closed",
         "No registry lock across peer-controlled awaits / bounded sends / context locks, no context lock across peer input, accept loops do nothing peer-dependent inline, lock order acyclic, API handlers only wait for locks and local work. Not latencies or lock fairness.",
         "Trusts tokio lock fairness for short sections; PEER-OUT under the context lock is recorded, not armed.", "3/C14"),
})

CLAIMS.update({
 "C15": ("who-may-write on the rule list, post-dominance of the swap over every fallible step, guard-liveness of the read guard in process_request, Ok/Err edge separation in post_rules, serde field-set comparison",
         "Single writer, validate-then-swap with one whole-vector assignment, one read guard per decision with no await under it, error vs success reply separated, serialised fields cover deserialised ones. Linearisation is argued from these and RwLock semantics, not model-checked.",
         "Trusts tokio RwLock exclusivity and serde derives.", "3/C15"),
 "C16": ("single-constructor / unique-id dataflow, gc hand-off step table, inter-procedural 'settles' summaries for the lifecycle typestate, state-constant ordering by dominance, counter pairing dataflow, log flush rule",
         "One constructor with a fetch_add id registered as alive, exactly-once drop->gc->log/history hand-off shape, every path after create_context ends in enqueue or a terminal record, lifecycle order of state constants, recorded connector = used connector, drained early data counted, log flushed per record. Exactly-once under concurrency is argued from ownership.",
         "Trusts one Drop per value; one known finding (tproxy early return).", "3/C16"),
 "C17": ("dataflow from selection primitive to lookup key, single-RMW rule on the cursor, hasher construction and feed dataflow, record/use pairing",
         "Members only (choose / index modulo len over self.connectors, verified non-empty and existing), one fetch_add(1) whose result selects, keyless deterministic hasher fed only the key with derived Hash, recorded member = used member. Statistical claims about random are not decided.",
         "Trusts rand's choose and std DefaultHasher determinism.", "3/C17"),
 "C18": ("rule P over the load-path call graph with anchored table, dispatch totality, call-graph SCCs for config-driven recursion, PEG analysis for exponential backtracking (shared recursive prefixes in ordered choices), must-precede of init/verify before the --test exit",
         "No undischarged panic edge on the configuration load path or in the rule-language front end, erroring default arms, --test executes what start-up executes. Seven genuine findings are recorded as known (unbounded parser/checker/evaluator recursion, exponential-time grammar, self-referential load balancer).",
         "Trusts serde_yaml/nom not to panic; known findings listed in known_findings.json.", "3/C18"),
 "C19": ("must-pass of a dialing call in every connector impl, connector field enumeration against a reasoned table, Err-edge reachability of cache invalidation with string-prefix agreement, guard-liveness on the cache mutex",
         "Only the structural clauses: per-request dialing, no connection-retaining field, the QUIC cache is cleared on the error a dead connection produces and re-created when empty, the cache lock is not held while connecting. Recovery time / attempt bounds are NOT decided.",
         "Trusts quinn to report a dead connection from open_bi.", "3/C19"),
})

NA = {}
ALL = ["C%02d" % i for i in range(1, 20)]

def main():
    checks = []
    for pid in ALL:
        if pid not in CLAIMS:
            continue
        tech, text, note, ref = CLAIMS[pid]
        checks.append({
            "property_id": pid,
            "quick_cmd": "python3 check.py %s --tier quick" % pid,
            "thorough_cmd": "python3 check.py %s --tier thorough" % pid,
            "evidence_file": "/verif/evidence/%s.json" % pid,
            "replay_cmd_template": "python3 check.py %s --tier quick  # violations are listed in {path}" % pid,
            "engine": "rpx",
            "level_claimed": {"category": "other", "text": text, "design_ref": ref},
            "level_note": note,
            "technique": "static analysis: " + tech,
        })
    na = []
    for pid in ALL:
        if pid not in CLAIMS:
            na.append({"property_id": pid, "reason": NA.get(pid, "check not built yet in this round (static rules designed in DESIGN.md section 3; will be claimed once the rule is armed)")})
    commits = subprocess.run(["git", "-C", "/repo", "log", "--format=%h %s"], capture_output=True, text=True).stdout.splitlines()
    fix_commits = [c.split()[0] for c in commits if c.split(" ", 1)[1].startswith("fix:")]
    m = {
        "version": 1,
        "setup_cmd": "bash setup.sh",
        "hooks": {
            "guard": "mengjiangproject_redproxy_rs_verif",
            "enable": "none needed: checks are static (rustc_private driver over `cargo +nightly check`); no source hook exists, the cfg name is reserved and unused",
            "baseline_off_cmd": "cd /repo && cargo test --workspace --no-fail-fast --offline",
            "source_commits": fix_commits,
            "add_only": True,
        },
        "engines": [{"name": "rpx", "path": "/verif/engine", "serves_properties": sorted(CLAIMS),
                     "kind_free_text": "rustc_private MIR/item fact dumper (engine/rpx-driver) + Python rule passes (engine/rules) evaluated by check.py; nothing in /repo is executed"}],
        "checks": checks,
        "notes": "All claims are level=other: structural necessary conditions decided by static analysis of the type-checked program; see DESIGN.md. source_commits lists the unguarded fix: commits in /repo (genuine defects repaired), there are no hook commits.",
        "not_applicable": na,
    }
    with open(os.path.join(V, "MANIFEST.json"), "w") as fh:
        json.dump(m, fh, indent=1)
    print("wrote MANIFEST.json: %d checks, %d not_applicable" % (len(checks), len(na)))

if __name__ == "__main__":
    main()
