#!/usr/bin/env python3
"""Apply a patch to a scratch copy of /repo (never to /repo itself) and run the quick checks of the given properties on it.
   tools/try_patch.py <patch.diff> [Cxx ...]      (default: all 19)
Prints, per property, the finding keys.  The scratch copy and its facts are removed afterwards."""
import json, os, shutil, subprocess, sys, tempfile
V = os.path.dirname(os.path.dirname(os.path.abspath(__file__)))
patch = os.path.abspath(sys.argv[1])
props = sys.argv[2:] or ["C%02d" % i for i in range(1, 20)]
scratch = tempfile.mkdtemp(prefix="rpx-try-", dir="/var/tmp")
evid = tempfile.mkdtemp(prefix="rpx-try-ev-", dir="/var/tmp")
rc_all = 0
_fd0 = os.path.join(os.environ.get("RPX_CACHE_DIR") or os.path.join(V, ".cache"), "facts")
before = set(os.listdir(_fd0)) if os.path.isdir(_fd0) else set()
try:
    subprocess.run(["rsync", "-a", "--exclude", "target", "--exclude", ".git", "/repo/", scratch + "/"], check=True)
    r0 = subprocess.run(["patch", "-p1", "-s", "-i", patch], cwd=scratch, capture_output=True, text=True)
    if r0.returncode != 0:
        print("PATCH-FAILED", r0.stdout[-300:], r0.stderr[-300:])
        sys.exit(3)
    env = dict(os.environ, RPX_REPO=scratch, RPX_EVIDENCE_DIR=evid)
    _fd = os.path.join(os.environ.get("RPX_CACHE_DIR") or os.path.join(V, ".cache"), "facts")
    before = set(os.listdir(_fd)) if os.path.isdir(_fd) else set()
    for p in props:
        r = subprocess.run([sys.executable, os.path.join(V, "check.py"), p, "--tier", "quick", "--no-selftest"], env=env, capture_output=True, text=True)
        keys = [l.strip() for l in r.stdout.splitlines() if l.strip().startswith("key=")]
        print("%s exit=%d %s" % (p, r.returncode, " ".join(keys)[:600]))
        rc_all |= r.returncode
finally:
    fd = os.path.join(os.environ.get("RPX_CACHE_DIR") or os.path.join(V, ".cache"), "facts")
    if os.path.isdir(fd):
        for d in set(os.listdir(fd)) - before:      # facts of the scratch tree: of no further use
            shutil.rmtree(os.path.join(fd, d), ignore_errors=True)
    shutil.rmtree(scratch, ignore_errors=True)
    shutil.rmtree(evid, ignore_errors=True)
sys.exit(rc_all)
