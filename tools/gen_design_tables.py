#!/usr/bin/env python3
"""Regenerate the generated tables of DESIGN.md section 8 (between <!-- gen:NAME --> markers) from
known_findings.json, selftest/seeds.json and seeded/*/meta.json."""
import json, os, re, glob
V = os.path.dirname(os.path.dirname(os.path.abspath(__file__)))
kf = json.load(open(os.path.join(V, "known_findings.json")))
seeds = json.load(open(os.path.join(V, "selftest", "seeds.json")))


def esc(s):
    return str(s).replace("|", "\\|").replace("\n", " ")


def t_fixed():
    out = ["| commit | property | what failed |", "|---|---|---|"]
    for f in reversed(kf["fixed"]):
        line = f["line"]
        m = re.match(r"fixed: property=\S+ \S+ (.*)$", line)
        out.append("| %s | %s | %s |" % (f["commit"], f["property"], esc(m.group(1) if m else line)))
    return "\n".join(out)


def t_known():
    out = ["| property | key | what fails | failing input | why not repaired here |", "|---|---|---|---|---|"]
    for k in kf["known"]:
        out.append("| %s | `%s` | %s | %s | %s |" % (k["property"], esc(k["key"]), esc(k["what"]), esc(k.get("input", "")), esc(k.get("why_not_fixed", ""))))
    return "\n".join(out)


def t_seeds():
    out = ["| property | seed | what it does | rule that fires |", "|---|---|---|---|"]
    for p in sorted(seeds):
        for s in seeds[p]:
            if s["name"].startswith("agent-"):
                continue
            out.append("| %s | %s | %s | `/%s/` |" % (p, s["name"], esc(s.get("what", "")), esc(s["expect"].replace("\\|", "/").strip("/"))))
    return "\n".join(out)


def t_agent():
    out = ["| property | kept as | the change (written without sight of /verif) | needs, to manifest | verdict of the checks |", "|---|---|---|---|---|"]
    for d in sorted(glob.glob(os.path.join(V, "seeded", "*"))):
        mp = os.path.join(d, "meta.json")
        if not os.path.exists(mp):
            continue
        m = json.load(open(mp))
        out.append("| %s | `seeded/%s/` | %s | %s | %s |" % (m.get("property", os.path.basename(d)[:3]), os.path.basename(d), esc(m.get("summary", ""))[:420],
                                                          esc(m.get("needs", ""))[:300], esc(m.get("detection", ""))))
    return "\n".join(out)


GEN = {"fixed": t_fixed, "known": t_known, "seeds": t_seeds, "agent": t_agent}
p = os.path.join(V, "DESIGN.md")
s = open(p).read()
for name, fn in GEN.items():
    pat = re.compile(r"(<!-- gen:%s -->\n).*?(<!-- /gen:%s -->)" % (name, name), re.S)
    if not pat.search(s):
        raise SystemExit("marker gen:%s missing in DESIGN.md" % name)
    s = pat.sub(lambda m: m.group(1) + fn() + "\n" + m.group(2), s)
open(p, "w").write(s)
print("DESIGN.md tables regenerated: %d fixed, %d known, %d seeds, %d agent changes" % (
    len(kf["fixed"]), len(kf["known"]), sum(1 for p in seeds for x in seeds[p] if not x["name"].startswith("agent-")),
    len(glob.glob(os.path.join(V, "seeded", "*", "meta.json")))))
