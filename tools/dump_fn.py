#!/usr/bin/env python3
"""Debug aid: print the (expanded) MIR of the functions whose key matches a regex.
   RPX_REPO=<tree> tools/dump_fn.py <regex> [config]"""
import json, os, re, sys
V = os.path.dirname(os.path.dirname(os.path.abspath(__file__)))
sys.path.insert(0, V)
from engine import facts
from engine.mir import Program
rx = re.compile(sys.argv[1])
cfg = sys.argv[2] if len(sys.argv) > 2 else "default"
fdir, meta = facts.produce(cfg, repo=os.environ.get("RPX_REPO") or "/repo")
prog = Program(fdir)
print("renamed:", getattr(prog, "renamed", None))
print("desugared:", getattr(prog, "desugared", None))
print("inlined:", getattr(prog, "inlined", None))
for k, fn in prog.fns.items():
    if not rx.search(k):
        continue
    print("=== fn", k, "args", fn.arg_count)
    for i, d in enumerate(fn.locals):
        print("  _%d: %s %s" % (i, fn.local_ty_s(i), fn.local_name(i) or ""))
    for b in sorted(fn.reachable):
        print(" bb%d:" % b)
        for st in fn.stmts(b):
            if st["k"] == "assign":
                print("    %s = %s" % (st["lhs"], json.dumps(st["rv"])[:200]))
        t = fn.term(b)
        if t["k"] == "call":
            c = fn.call_at(b)
            print("    CALL %s(%s) -> %s  target=%s" % (c.path, json.dumps(c.args)[:160], c.dest, c.target))
        else:
            print("    TERM %s" % json.dumps(t)[:200])
