#!/usr/bin/env python3
"""Keep a confirmed seeded change: tools/keep_seed.py <PROP> <slug> <expect-regex> "<detection note>" "<what I ran>" """
import json, os, shutil, sys
V = os.path.dirname(os.path.dirname(os.path.abspath(__file__)))
prop, slug, expect, note, ran = sys.argv[1:6]
src = os.environ.get("SEED_SRC") or "/tmp/out-%s" % prop
dst = os.path.join(V, "seeded", "%s-%s" % (prop, slug))
if os.path.exists(dst):
    shutil.rmtree(dst)
os.makedirs(dst)
shutil.copy(os.path.join(src, "patch.diff"), dst)
if os.path.isdir(os.path.join(src, "demo")):
    shutil.copytree(os.path.join(src, "demo"), os.path.join(dst, "demo"))
m = json.load(open(os.path.join(src, "meta.json")))
m["origin"] = "written by a sub-agent that saw only the property text and its own scratch worktree"
m["confirmed_by_me"] = ran
m["expect"] = expect
m["detection"] = note
json.dump(m, open(os.path.join(dst, "meta.json"), "w"), indent=1)
# register for the both-ways self-test
sp = os.path.join(V, "selftest", "seeds.json")
s = json.load(open(sp))
lst = s.setdefault(prop, [])
lst[:] = [x for x in lst if x.get("name") != "agent-" + slug]
lst.append({"name": "agent-" + slug, "what": m.get("summary", "")[:200], "expect": expect, "patch": "seeded/%s-%s/patch.diff" % (prop, slug)})
json.dump(s, open(sp, "w"), indent=1)
print("kept", dst)
