#!/usr/bin/env python3
"""Write engine/tables/baseline_fns.json: the reference inventory of engine/inline.py.
  fns:  key -> {file, sig}   all non-closure functions of the local crates, over all build configurations
  adts: path -> [[variant, [[field, type], ..]], ..]
A function that is not in it is analysed as part of its callers; a function/field of it that disappeared while a new one with
the same signature/type appeared in the same place is taken to be renamed.  Regenerate when the rules are revised against a new
upstream tree."""
import json, os, sys
V = os.path.dirname(os.path.dirname(os.path.abspath(__file__)))
sys.path.insert(0, V)
os.environ["RPX_NO_INLINE"] = "1"
from engine import facts
from engine.mir import Program
from engine.inline import fn_sig, fn_print, fn_print_deep
fns, adts, meta_adt = {}, {}, {}
for cfg in ("default", "nodefault", "quic-only", "metrics-only"):
    fdir, meta = facts.produce(cfg)
    prog = Program(fdir)
    for k, f in prog.fns.items():
        if f.kind in ("Fn", "AssocFn"):
            # bodies differ between build configurations (feature-gated code): fingerprint and size are kept per configuration
            e = fns.setdefault(k, {"file": f.file, "sig": fn_sig(f), "print": {}, "nblocks": {}, "deep": {}})
            e["print"][cfg] = fn_print(prog, f)
            e["deep"][cfg] = fn_print_deep(prog, f)
            e["nblocks"][cfg] = len(prog.body_of(f).blocks)
    for c in ("redproxy_rs", "milu"):
        for a in prog.items[c]["adts"]:
            adts[c + "::" + a["path"]] = [[v["name"], [[fl["name"], prog.types[c][fl["ty"]]["s"]] for fl in v["fields"]]] for v in a["variants"]]
            meta_adt[c + "::" + a["path"]] = {"file": a["span"]["f"], "kind": a["kind"],
                                              "traits": sorted(set(i.get("trait", "") for i in prog.items[c]["impls"] if prog.types[c][i["self_ty"]]["s"] == a["path"]))}
json.dump({"fns": fns, "adts": adts, "adt_meta": meta_adt}, open(os.path.join(V, "engine", "tables", "baseline_fns.json"), "w"), indent=0, sort_keys=True)
print("inventory: %d functions, %d types" % (len(fns), len(adts)))
