#!/usr/bin/env python3
"""Write engine/tables/baseline_fns.json: the keys of all non-closure functions of the local crates on the current tree, over
all build configurations.  This is the reference inventory of engine/inline.py: a function that is not in it is analysed as
part of its callers.  Regenerate it when the rules are revised against a new upstream tree."""
import json, os, sys
V = os.path.dirname(os.path.dirname(os.path.abspath(__file__)))
sys.path.insert(0, V)
os.environ["RPX_NO_INLINE"] = "1"
from engine import facts
from engine.mir import Program
keys = set()
for cfg in ("default", "nodefault", "quic-only", "metrics-only"):
    fdir, meta = facts.produce(cfg)
    prog = Program(fdir)
    keys |= set(k for k, f in prog.fns.items() if f.kind in ("Fn", "AssocFn"))
json.dump(sorted(keys), open(os.path.join(V, "engine", "tables", "baseline_fns.json"), "w"), indent=0)
print("inventory: %d functions" % len(keys))
