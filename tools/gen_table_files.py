#!/usr/bin/env python3
"""Write engine/tables/panic_table_files.json: for every entry of the reasoned panic table, the source file(s) of the
function(s) it names on the current tree.  Used only as a fallback when a named function no longer exists (renamed/moved)."""
import json, os, re, sys
V = os.path.dirname(os.path.dirname(os.path.abspath(__file__)))
sys.path.insert(0, V)
from engine import facts
from engine.mir import Program
from engine.tables.panic_table import T
fdir, meta = facts.produce("default")
prog = Program(fdir)
out = {}
for ent in T:
    files = sorted(set(f.file for k, f in prog.fns.items() if re.search(ent["fn"], k)))
    if files:
        out[ent["fn"]] = files
json.dump(out, open(os.path.join(V, "engine", "tables", "panic_table_files.json"), "w"), indent=1, sort_keys=True)
print("wrote %d of %d entries" % (len(out), len(T)))
