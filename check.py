#!/usr/bin/env python3
"""Entry point: python3 check.py <Cxx> [--tier quick|thorough]

Decides the structural clauses of one property for /repo's current working
tree by static analysis of the type-checked program (see DESIGN.md).
exit 0 = held on everything analysed; exit 1 + 'VIOLATION property=.. replay=..'.
"""
import argparse
import importlib
import os
import sys
import traceback

sys.path.insert(0, os.path.dirname(os.path.abspath(__file__)))

from engine import facts  # noqa: E402
from engine.core import Check  # noqa: E402
from engine.mir import Program, AnchorMissing  # noqa: E402

CONFIG_FEATURES = {
    "default": {"quic", "metrics", "embedded-ui"},
    "nodefault": set(),
    "quic-only": {"quic"},
    "metrics-only": {"metrics"},
}


def run_property(prop, tier, seed, configs=None, repo=None, selftest=True):
    mod = importlib.import_module("engine.rules." + prop.lower())
    chk = Check(prop, tier, seed)
    if configs is None:
        configs = ["default"] if tier == "quick" else ["default", "nodefault", "quic-only", "metrics-only"]
    for cfg in configs:
        chk.config = cfg
        chk.configs.append(cfg)
        try:
            fdir, meta = facts.produce(cfg, repo=repo)
        except facts.FactError as e:
            chk.anchor_missing("build", cfg, "the analysed tree does not build in configuration %s: %s" % (cfg, str(e)[-1500:]))
            continue
        prog = Program(fdir)
        prog.features = CONFIG_FEATURES[cfg]
        prog.config = cfg
        chk.analysed[cfg] = {
            "fact_key": meta["key"],
            "bodies": {c: prog.raw[c]["n_bodies"] for c in prog.raw},
            "calls": sum(len(f.calls) for f in prog.fns.values()),
            "helpers_analysed_inside_their_callers": ["%s -> %s" % (h, c) for h, c in getattr(prog, "inlined", [])],
            "renames_recognised": ["%s = %s" % (n, o) for n, o in getattr(prog, "renamed", [])],
            "combinator_chains_rewritten_in": list(getattr(prog, "desugared", [])),
        }
        if os.environ.get("RPX_FACTS_EPHEMERAL"):
            import shutil
            shutil.rmtree(fdir, ignore_errors=True)
        produced = []
        _orig_finding = chk.finding

        def _rec(*a, **k):
            f_ = _orig_finding(*a, **k)
            produced.append(f_.key)
            return f_
        chk.finding = _rec
        try:
            mod.run(chk, prog)
        except AnchorMissing as e:
            chk.anchor_missing("anchor", str(e)[:200], str(e))
        except Exception as e:  # a crashing rule must not pass
            tb = traceback.format_exc()
            sys.stderr.write(tb)
            chk.anchor_missing("engine-error", type(e).__name__, "rule evaluation crashed (%s: %s); failing closed" % (type(e).__name__, e))
        chk.finding = _orig_finding
        if tier == "thorough" and selftest and not os.environ.get("RPX_FORCE_DESUGAR") and os.path.isdir(fdir):
            # engine self-check: the verdict must not depend on whether combinator chains were rewritten into control flow (they are
            # only rewritten in functions that differ from the reference inventory): evaluate once more with every function rewritten
            mine = set(produced)
            os.environ["RPX_FORCE_DESUGAR"] = "1"
            try:
                prog2 = Program(fdir)
                prog2.features = CONFIG_FEATURES[cfg]
                prog2.config = cfg
                chk2 = Check(prop, tier, seed)
                chk2.config = cfg
                try:
                    mod.run(chk2, prog2)
                    theirs = set(f.key for f in chk2.findings)
                except Exception as e:
                    theirs = {"crash:%s" % type(e).__name__}
            finally:
                os.environ.pop("RPX_FORCE_DESUGAR", None)
            same = mine == theirs
            chk.analysed[cfg]["verdict_independent_of_combinator_rewriting"] = \
                "%s (%d functions rewritten for the comparison)" % ("yes" if same else "NO", len(getattr(prog2, "desugared", [])))
            if not same:
                chk.anchor_missing("engine-selfcheck", "desugar-invariance/%s" % cfg,
                                   "the findings change when every combinator chain is rewritten into control flow (only with: %s; only without: %s): "
                                   "a rule depends on a spelling; failing closed" % (sorted(theirs - mine)[:3], sorted(mine - theirs)[:3]))
    if tier == "thorough" and selftest:
        try:
            from engine import selftest as st
            st.run_for(chk, prop)
        except ImportError:
            pass
    chk.config = None
    chk.not_decided = list(getattr(mod, "NOT_DECIDED", []))
    chk.assumptions = list(getattr(mod, "ASSUMPTIONS", []))
    return chk, mod


def main():
    ap = argparse.ArgumentParser()
    ap.add_argument("prop")
    ap.add_argument("--tier", default=os.environ.get("VERIF_TIER", "quick"))
    ap.add_argument("--config", action="append")
    ap.add_argument("--repo")
    ap.add_argument("--no-selftest", action="store_true")
    a = ap.parse_args()
    tier = a.tier if a.tier in ("quick", "thorough") else "quick"
    seed = int(os.environ.get("VERIF_SEED", "0") or 0)
    chk, mod = run_property(a.prop.upper(), tier, seed, a.config, a.repo, not a.no_selftest)
    rc = chk.finish(mod.EXPLANATION, mod.RULE_TEXT, getattr(mod, "TRUSTED", []))
    sys.exit(rc)


if __name__ == "__main__":
    main()
